"""C05 -- failures are contained and never recorded as success   (models M1 + M1-extension RunFail, DESIGN §5 C05)

(T) lean/DoitModel/Props/C05.lean: (a) no_dependent_runs (serial + parallel, every edge kind, transitive, with/without
    --continue), (b) not_recorded (M1 part: every failure report is preceded by remove_success and followed by no
    save_success), (c) continue_complete (serial + parallel, full statement), (d) serial_stops, pinned counterexample.
(K) the real doit runs generated DAG cases in a THREE-RUN history on one dependency DB (json / dbm / sqlite3):
      A  warm-up: every task of the selection's closure executes successfully (so that failures in B hit tasks that
         HAVE a success record), optional;
      B  the measured run: failure placements of every kind (action returns False / raises / returns TaskFailed /
         TaskError, file_dep missing before execution -> 'error' status, file_dep deleted during execution ->
         save_success raises -> DependencyError), every edge kind between the failing task and its dependents, serial /
         thread (deterministic scheduler) / process (token-forced completion order) runner, with and without -c;
         the observed event list must be a trace of the Lean model (driver request model=c05 = acceptor of Driver/Run);
         optionally cut short by an exception raised by the reporter inside add_failure or by a teardown action raising
         KeyboardInterrupt / SystemExit (serial, thread): the failure must still be forgotten on disk;
      C  the next run on the same DB with every input exactly as the last successful execution saw it and every action
         succeeding: shows whether a failed task is still "remembered".
    Round 6: (i) per task, WHY it executes again in run B: `uptodate` false (task.dep_changed == []) or a file_dep modified
    since the warm-up run while the others are not (trigger 'dep': dep_changed non-empty and partial) -- with outcome
    saveerr an UNMODIFIED file_dep vanishes during that execution; (ii) the DELAYED SLICE (eval_delayed): creators delayed
    with create_after(executed=pre) below a failing / unmet / ignored `pre`, ONE plain task or a group -- M1 has no delayed
    creators, so these runs are judged by the Python statements only (counter delayed_slice:monitors_only); the group
    shape is the open finding delayed-group-subtasks-run.
(P) the statement on the implementation's behaviour: Lean monitors C05_no_dependent_runs / C05_serial_stops /
    C05_continue_complete / C05_not_recorded (DB content after B read back through the backend API) evaluated by the
    driver on run B's trace, cross-checked by Python reference monitors; plus the Python predicate C05_reexecuted on
    run C (a task with a failure report in B is never `skip_uptodate` in C unless it is stateless, and executes when
    nothing fails in C).  "A task that fails" is also read as what its action DID (the harness wrote the action: a
    python-action returning False / raising, a cmd-action exiting non-zero or killed by a signal): if such a task was
    executed and NOT reported as a failure (C05_failure_recognised), all the statements are evaluated again on the
    ground-truth trace (C05_truth_*: its dependents must not start, no record, executes again).
"""
import gc
import json
import os
import random
import signal
import sys
import io
import threading
import time
import traceback

import common
import runlib

PROP = 'C05'

META = {
    'property': PROP,
    'lean_props': ['DoitModel.Props.C05'],
    'level': 'proof',
    'budget': {'quick': 40, 'thorough': 480},
    'anchors': ['doit/task.py::Task.execute', 'doit/control.py::TaskControl._get_wild_tasks',
                'doit/dependency.py::Dependency.close', 'doit/dependency.py::JsonDB.dump', 'doit/runner.py::Runner.finish', 'doit/runner.py::Runner.run_all', 'doit/action.py::CmdAction.execute', 'doit/runner.py::Runner._handle_task_error', 'doit/runner.py::Runner.select_task',
                'doit/runner.py::Runner.process_task_result', 'doit/runner.py::Runner.run_tasks',
                'doit/runner.py::Runner.execute_task', 'doit/runner.py::MRunner.get_next_job',
                'doit/runner.py::MRunner.run_tasks', 'doit/runner.py::MRunner._process_result',
                'doit/control.py::ExecNode', 'doit/control.py::TaskDispatcher._update_waiting',
                'doit/control.py::TaskDispatcher._node_add_wait_run', 'doit/control.py::TaskDispatcher._add_task',
                'doit/control.py::TaskDispatcher._process_calc_dep_results',
                'doit/dependency.py::Dependency.save_success', 'doit/dependency.py::Dependency.remove_success',
                'doit/dependency.py::Dependency.get_status', 'doit/dependency.py::JsonDB.remove',
                'doit/dependency.py::DbmDB.remove', 'doit/dependency.py::SqliteDB.remove'],
    'technique': 'Lean 4 invariant proofs over the small-step run model (all schedules, all runners) + trace-acceptance '
                 'correspondence on three-run histories (warm-up, failing run, next run) against the real doit on every '
                 'DB backend, deterministic thread scheduler, token-forced multiprocessing runs',
    'design_ref': '§5 C05, §4 M1, §6.3, §6.4',
    'level_text': 'Machine-checked for every reachable state of the run model (serial, thread, process; any number of '
                  'workers, any interleaving, with and without --continue): once a task has a failure report (failed, '
                  'error, unmet dependency, dependency error incl. "cannot be saved"), no task depending on it through '
                  'task_dep / target->file_dep / result_dep / calc_dep / delivered calc results / setup / getargs, '
                  'transitively, is ever selected or started; every failure report goes with remove_success and is '
                  'never followed by save_success for that task; --continue never stops the run and, for every runner, '
                  'every closure member is reported exactly once at the end of the run (`unmet` only below a failed '
                  'task); the serial runner without --continue starts nothing after '
                  'the first failure.  Tied to doit on every run by trace acceptance of real failing runs and by '
                  'observing DB content and the following run on json, dbm and sqlite3.',
    'level_note': 'C05_continue_complete is proved at full strength for every runner '
                  '(C05_continue_complete_serial, C05_continue_complete_parallel, C05_continue_complete: with '
                  '--continue, when the run ends without internal error, every closure member has exactly one terminal '
                  'report, and `unmet` only below a task with a failure report; the parallel half rests on the '
                  'free_proc/proc_count accounting invariant of Proofs/RunAcct.lean).  '
                  'Clause (b) is proved at the M1 level '
                  '(remove_success at every failure report, no later save); that an absent record means "not '
                  'up-to-date next run" is OBSERVED on the real code by the third run (no M2 status model exists yet) '
                  '-- monitor C05_reexecuted is a Python predicate; the other four monitors are Lean predicates '
                  '(driver) cross-checked in Python, all four proved sound on model traces: no_dependent_runs, '
                  'not_recorded, serial_stops and continue_complete '
                  '(C05_monitor_continue_complete_serial/_parallel/_exit) on the trace of every reachable state '
                  '(continue_complete: for every bound nTasks above all task names -- namesBelow -- and every exit '
                  'code that is <= 2 only without internal error; its guard is false before the end of the run: '
                  'C05_complete_means_halted) -- '
                  'including that the closure the monitor computes from the trace, which is larger than the '
                  'model closure RunCl (setup-tasks of tasks reported unmet/ignored in the second select_task '
                  'pass), is fully processed, and that its nTasks-round fixed-point iterations are complete.',
    'rule': 'runlib DAG generator (3-8 tasks, all edge kinds, groups, shared deps, calc deliveries, up-to-date and '
            'ignored tasks) with failure-heavy oracle: outcome failed/error/saveerr x how return/raise/object, status '
            'error (missing file_dep), multi-action tasks failing in action 2 of 3, wildcard task_dep on a group, values the DB cannot store (set/bytes), lazily invalid actions (int / 4-tuple), runs cut short by a raising reporter / an interrupting teardown, re-execution in the failing run caused by uptodate false OR by one modified file_dep next to unmodified ones (trigger=dep; with outcome saveerr an UNMODIFIED file_dep vanishes during the execution), delayed slice (monitors only, counters delayed_slice:*): create_after(executed=pre) with pre failing in 7 ways / unmet / ignored x ONE plain task | group of 1-3 sub-tasks x dependent via task_dep/setup x serial/thread x --continue x warm-up x backend, cmd-action placements (exit status 1/2/126/127/200, death by SIGKILL/SIGTERM/SIGSEGV, list and shell form); backend json|dbm|sqlite3; warm-up run or not; runner serial | thread k=1..4 x '
            'schedule policy | process k=2,3; non-trivial = at least one failure report and one dependency edge; '
            'distinct = distinct rendered case + backend + warm + schedule',
    'assumptions': ['delayed task-creators are outside M1: the delayed slice is monitors-only (no trace acceptance)',
                    'actions touch only their own targets (granularity assumption of M1 for thread mode)',
                    'process-mode runs are sampled (real OS scheduling; completion order forced, pick-up order not)',
                    'a setup edge of a task that is up-to-date is not a dependency (DESIGN §5 reading of "closure")',
                    'only dbm.dumb is available as dbm backend in this sandbox'],
    'trusted': ['deterministic thread scheduler and token controller of harness/runlib.py',
                'own dependency expansion runlib.expand (getargs/result_dep/file_dep -> edges)',
                'the three-run protocol of harness/props/c05.py (files restored byte- and mtime-identically)'],
    'models': ['M1'],
}

def _sig_delayed_group_subtasks(w):
    """the delayed slice, the creator yields a GROUP, the only false statement is no_dependent_runs and the task that
    started below the failed trigger is a SUB-TASK made by the delayed creator"""
    d = (w.get('detail') or {}).get('no_dependent_runs') or {}
    return bool(w.get('delayed_slice')) and (w.get('case') or {}).get('shape') == 'group' \
        and w.get('failed_monitors') == ['C05_no_dependent_runs'] and str(d.get('started', '')).startswith('late:')


SIGNATURES = {'delayed-group-subtasks-run': _sig_delayed_group_subtasks}

LEAN_KEYS = ['C05_no_dependent_runs', 'C05_serial_stops', 'C05_continue_complete', 'C05_not_recorded']
# the same statements with "fails" read as what the task's action DID (known to the harness: it wrote the action), not
# as what doit reported: evaluated only when an executed task with a failing action was not reported as a failure
TRUTH_LEAN_KEYS = ['C05_truth_no_dependent_runs', 'C05_truth_serial_stops', 'C05_truth_not_recorded']
ALL_KEYS = LEAN_KEYS + ['C05_reexecuted', 'C05_failure_recognised'] + TRUTH_LEAN_KEYS + ['C05_truth_reexecuted',
                        'C05_later_actions_skipped', 'C05_invalid_action_contained']
BACKENDS = ('json', 'dbm', 'sqlite3')
FIXED_MTIME = 1500000000


# ======================================================================================================
# case preparation
# ======================================================================================================

def fsname(name):
    return name.replace(':', '_')


# failure placements realised by a cmd-action (CmdAction.execute: returncode > 125 -> TaskError, any other non-zero
# returncode -- including the NEGATIVE one of a child killed by a signal -- -> TaskFailed)
CMD_HOWS = {'failed': ['cmd:1:shell', 'cmd:1:list', 'cmd:2:shell', 'cmd:2:list',
                       'sig:KILL:list', 'sig:KILL:shell', 'sig:TERM:list', 'sig:TERM:shell',
                       'sig:SEGV:list', 'sig:SEGV:shell'],
            'error': ['cmd:126:shell', 'cmd:126:list', 'cmd:127:shell', 'cmd:127:list', 'cmd:200:shell', 'cmd:200:list']}
SIGNUM = {'KILL': 9, 'TERM': 15, 'SEGV': 11}


def is_cmd_how(how):
    return isinstance(how, str) and (how.startswith('cmd:') or how.startswith('sig:'))


def cmd_outcome(how):
    """the oracle outcome a cmd placement produces"""
    kind, arg, _form = how.split(':')
    if kind == 'sig':
        return 'failed'
    return 'error' if int(arg) > 125 else 'failed'


def cmd_of(how):
    """the cmd-action: a string (run through the shell) or a list (direct child)"""
    kind, arg, form = how.split(':')
    script = ('kill -%d $$' % SIGNUM[arg]) if kind == 'sig' else ('exit %d' % int(arg))
    return script if form == 'shell' else ['sh', '-c', script]


def prepare(case):
    """normalise a case for the three-run protocol (idempotent) and attach the model-level input.
    With a warm-up run an up-to-date task has saved values, so (differently from runlib's fresh-DB protocol) it would
    deliver calc results / getargs values: such tasks deliver nothing (calc_res dropped) and getargs sources are not
    up-to-date."""
    case.setdefault('backend', 'json')
    case.setdefault('warm', False)
    byname = {t['name']: t for t in case['tasks']}
    if case['warm']:
        for t in case['tasks']:
            if t['status'] == 'utd' and t.get('calc_res') is not None:
                t['calc_res'] = None
        for t in case['tasks']:
            for _a, src, _k in t['getargs']:
                srcs = [byname[src]]
                if byname[src]['kind'] == 'group':
                    srcs = [s for s in case['tasks'] if s['kind'] == 'sub' and s['group'] == src]
                    srcs += [byname[x] for x in byname[src]['task_dep'] if x in byname]
                for s in srcs:
                    if s['status'] == 'utd':
                        s['status'] = 'run'
        # a getargs key that does not exist fails in every run (also in the warm-up): only without warm-up
        for t in case['tasks']:
            for g in t['getargs']:
                if g[2] != 'v':
                    g[2] = 'v'
    for t in case['tasks']:
        if t['kind'] != 'group' and is_cmd_how(t.get('how')) and t['outcome'] in ('failed', 'error'):
            t['outcome'] = cmd_outcome(t['how'])
    for t in case['tasks']:
        if t['kind'] == 'group':
            continue
        if t['outcome'] == 'saveerr' and t['status'] == 'utd' and not case.get('always'):
            t['outcome'] = 'ok'
        # (M1 now models the delivery of a started-then-failed calc task: calcResFail, computed by runlib.expand for
        # outcome 'saveerr' and for 'calc_first' tasks; only the values-cannot-be-stored shape stays without calc results)
        if t['outcome'] == 'saveerr-values' and t.get('calc_res') is not None:
            t['calc_res'] = None
        # a task whose failure comes AFTER its first action (failing command as last action, or action 2 of 3) has
        # returned its values by then: doit delivers them to the tasks that have it as calc_dep
        if t['outcome'] in ('failed', 'error') and (t.get('multi') or is_cmd_how(t.get('how'))):
            t['calc_first'] = True
        elif 'calc_first' in t:
            del t['calc_first']
        if t['outcome'] == 'saveerr-values':
            if t['status'] == 'utd' and not case.get('always'):
                t['outcome'] = 'ok'
            t.setdefault('badval', 'set')
    # wildcard task_dep `g:*` on a group: valid only if the group has sub-tasks none of which is an explicit dependency
    for t in case['tasks']:
        keep = []
        for g in t.get('wild_dep') or []:
            subs = [x['name'] for x in case['tasks'] if x['kind'] == 'sub' and x['group'] == g]
            if t['kind'] == 'task' and subs and not any(x in t['task_dep'] or x in t['result_dep'] for x in subs) \
                    and g not in keep:
                keep.append(g)
        t['wild_dep'] = keep
    ab = case.get('abort')
    if ab:
        if case.get('runner') == 'process' or ab.get('task') not in byname or byname[ab['task']]['kind'] == 'group':
            case['abort'] = None        # (process runner: teardowns run in the children; not planted there)
        elif ab['kind'] == 'teardown':
            byname[ab['task']]['teardown'] = True
    case['model'] = _expand(case)
    if any(t.get('wild_dep') for t in case['tasks']) and \
            not runlib.is_acyclic(runlib.dynamic_edges(runlib._all_deliver(case['model'], case))):
        for t in case['tasks']:
            t['wild_dep'] = []
        case['model'] = _expand(case)
    return case


def _expand(case):
    """runlib.expand + what it does not know: the wildcard task_deps (TaskControl.__init__ appends the matching task
    names in definition order to task.task_dep after the explicit ones and the result_dep sources, before the implicit
    target->file_dep producers, which then skip what is already there) and the model outcome of 'saveerr-values'"""
    m = runlib.expand(case)
    idx = runlib.task_index(case)
    for i, t in enumerate(case['tasks']):
        if t.get('wild_dep'):
            k = len(t['task_dep']) + len(t['result_dep'])
            wild = []
            for g in t['wild_dep']:
                wild += [idx[x['name']] for x in case['tasks'] if x['kind'] == 'sub' and x['group'] == g]
            td = m['taskDep'][i]
            m['taskDep'][i] = td[:k] + wild + [d for d in td[k:] if d not in wild]
        if t['kind'] != 'group' and t['outcome'] == 'saveerr-values':
            # what the property asks of a task that cannot be saved (and what the proposed repair makes doit do)
            m['outcome'][i] = 'saveerr'
    return m


def stateless(case, t):
    """no saved state is consulted for this task's up-to-date decision"""
    return t['kind'] == 'group' or (t['status'] == 'utd' and not case['warm'])


def gen_case(rng, runner='serial', **knobs):
    kn = dict(p_failed=0.2, p_exc=0.12, p_error=0.09, p_utd=0.16, p_ignored=0.05, p_cont=0.55, p_always=0.04,
              p_dup_sel=0.0, n_max=8)
    kn.update(knobs)
    warm = kn.pop('warm', None)
    backend = kn.pop('backend', None)
    pol = kn.pop('gen_policy', False)
    c = runlib.gen_case(rng, runner=runner, **kn)
    for t in c['tasks']:
        if t['kind'] != 'group' and t['status'] == 'run' and t['outcome'] == 'ok' and rng.random() < 0.09:
            t['outcome'] = 'saveerr'
    for t in c['tasks']:
        if t['kind'] != 'group' and t['outcome'] in ('failed', 'error') and rng.random() < 0.45:
            t['how'] = rng.choice(CMD_HOWS[t['outcome']])
    # make sure something fails: most cases should exercise the property
    if not any(t['kind'] != 'group' and (t['outcome'] != 'ok' or t['status'] == 'error') for t in c['tasks']) \
            and rng.random() < 0.85:
        cands = [t for t in c['tasks'] if t['kind'] != 'group' and t['status'] == 'run' and not t['ignored']]
        if cands:
            v = rng.choice(cands)
            v['outcome'] = rng.choice(['failed', 'error', 'saveerr', 'failed'])
            v['how'] = rng.choice(['return', 'raise', 'object'])
            if v['outcome'] != 'saveerr' and rng.random() < 0.5:
                v['how'] = rng.choice(CMD_HOWS[v['outcome']])
    if pol and c['runner'] == 'thread':
        c['policy'] = runlib.gen_policy(rng, c['nproc'])
    # wave 4: multi-action tasks (failure in action 2 of 3), wildcard task_dep on a group, values that cannot be stored
    for t in c['tasks']:
        if t['kind'] != 'group' and rng.random() < 0.3:
            t['multi'] = True
    groups = [t['name'] for t in c['tasks'] if t['kind'] == 'group']
    if groups and rng.random() < 0.5:
        cands = [t for t in c['tasks'] if t['kind'] == 'task']
        if cands:
            rng.choice(cands)['wild_dep'] = [rng.choice(groups)]
    if rng.random() < 0.05:
        cands = [t for t in c['tasks'] if t['kind'] != 'group' and t['status'] == 'run' and t['outcome'] == 'ok'
                 and not t['ignored']]
        if cands:
            v = rng.choice(cands)
            v['outcome'] = 'saveerr-values'
            v['badval'] = rng.choice(['set', 'bytes'])
    c['backend'] = backend or rng.choice(BACKENDS)
    c['warm'] = (rng.random() < 0.65) if warm is None else warm
    # round 6: WHY a task executes again in run B: `uptodate` false (dep_changed empty) or one of its file_dep modified
    # since the warm-up run while its other file_dep are not (dep_changed non-empty and partial)
    for t in c['tasks']:
        if t['kind'] != 'group' and t['status'] == 'run' and rng.random() < 0.4:
            t['trigger'] = 'dep'
    # runs that are cut short by an exception raised from the reporter (inside add_failure) or by a teardown action that
    # raises KeyboardInterrupt / SystemExit: the failure must still be forgotten ON DISK
    r = rng.random()
    if c['runner'] != 'process' and r < 0.2:
        failing = [t for t in c['tasks'] if t['kind'] != 'group' and not t['ignored']
                   and (t['status'] == 'error' or (t['status'] == 'run' and t['outcome'] != 'ok'))]
        if r < 0.07:
            pool_ = failing or [t for t in c['tasks'] if t['kind'] != 'group']
            c['abort'] = {'kind': 'report', 'task': rng.choice(pool_)['name']}
        elif r < 0.12:
            # an action that turns out invalid only when the runner instantiates the task's actions (InvalidTask raised
            # inside execute_task): doit aborts the run ("Execution aborted"), with and without --continue
            runs = [t for t in c['tasks'] if t['kind'] != 'group' and t['status'] == 'run' and not t['ignored']]
            pool_ = runs or [t for t in c['tasks'] if t['kind'] != 'group']
            c['abort'] = {'kind': 'invalid', 'task': rng.choice(pool_)['name'], 'form': rng.choice(['int', 'tuple4'])}
        else:
            runs = [t for t in c['tasks'] if t['kind'] != 'group' and t['status'] == 'run' and not t['ignored']]
            pool_ = [t for t in failing if t['status'] == 'run'] if rng.random() < 0.6 else runs
            pool_ = pool_ or runs or [t for t in c['tasks'] if t['kind'] != 'group']
            c['abort'] = {'kind': 'teardown', 'task': rng.choice(pool_)['name'],
                          'exc': rng.choice(['KeyboardInterrupt', 'SystemExit'])}
        if warm is None and rng.random() < 0.7:
            c['warm'] = True
    return prepare(c)


# ======================================================================================================
# driving the real doit: three runs on one DB
# ======================================================================================================

BADVALS = {'set': {1, 2}, 'bytes': b'\x00\xff'}


def _fail_now(outcome, how):
    """the failing python element: returns / raises as the oracle says"""
    from doit.exceptions import TaskFailed, TaskError
    if outcome == 'failed':
        if how == 'object':
            return TaskFailed('oracle says failed')
        return False
    if how == 'object':
        return TaskError('oracle says error')
    raise RuntimeError('oracle says error')


def _make_actions(rec, cell, n, t):
    """the action list of task n.  Plain task: ONE python-action (start mark, checkpoint, targets, end mark, outcome) --
    followed in run B by the failing cmd-action when the failure is realised by a command.  `multi` task: THREE actions;
    action 1 = marks + every second target + values, action 2 = the element that fails in run B (python or command; a
    plain value-returning action otherwise), action 3 = raw event act3 + the remaining targets + more values: it must
    never run once action 2 failed."""
    targets = list(t['targets'])
    res = dict(t['calc_res']) if t.get('calc_res') is not None else {}
    gone = 'gone_' + fsname(t['name'])
    multi = bool(t.get('multi'))

    def oracle():
        return ('ok', 'return') if cell['phase'] != 'B' else (t['outcome'], t.get('how', 'return'))

    def first():
        w = rec[0].who()
        rec[0].ev(['start', n, w])
        rec[0].checkpoint(n)
        for f in (targets[0::2] if multi else targets):
            with open(f, 'w') as fh:
                fh.write('made by %d\n' % n)
        outcome, how = oracle()
        later_fails = outcome in ('failed', 'error') and (multi or is_cmd_how(how))
        if outcome == 'saveerr':
            os.unlink(gone)
        rec[0].ev(['end', n, w])
        if outcome in ('failed', 'error') and not later_fails:
            return _fail_now(outcome, how)
        val = {'v': n}
        if outcome == 'saveerr-values':
            val['unsavable'] = BADVALS[t.get('badval', 'set')]
        if later_fails or not multi:
            # (a task whose LATER action fails keeps the values of its earlier actions and delivers them as calc results:
            # model calcResFail)
            val.update(res)
        return val
    first.__name__ = 'act_%d' % n

    def second():
        outcome, how = oracle()
        if outcome in ('failed', 'error'):
            return _fail_now(outcome, how)
        return {'w': n}
    second.__name__ = 'act_%d_2' % n

    def third():
        rec[0].ev(['act3', n])
        for f in targets[1::2]:
            with open(f, 'w') as fh:
                fh.write('made by %d\n' % n)
        val = {'u': n}
        val.update(res)
        return val
    third.__name__ = 'act_%d_3' % n

    cmd_b = cell['phase'] == 'B' and is_cmd_how(t.get('how')) and t['outcome'] in ('failed', 'error')
    if not multi:
        return [first] + ([cmd_of(t['how'])] if cmd_b else [])
    return [first, cmd_of(t['how']) if cmd_b else second, third]


def _make_flag(cell, t):
    def flag():
        # run B: the oracle decides; runs A and C: nothing but saved state decides
        # (trigger 'dep': the re-execution in run B is caused by a MODIFIED file_dep -- in_<task> is rewritten between
        # A and B -- and not by `uptodate`: get_status then walks every file_dep and leaves a non-empty, partial
        # task.dep_changed)
        if dep_triggered(t):
            return True
        return not (cell['phase'] == 'B' and t['status'] == 'run')
    return flag


def dep_triggered(t):
    return t.get('trigger') == 'dep' and t['kind'] != 'group' and t['status'] == 'run'


class PlantReporter(runlib.RecReporter):
    """the recording reporter; in run B its add_failure raises for the planted task (after recording the report), as a
    reporter does that cannot print the failure (the seeded demo: ASCII-only stdout, non-ASCII character in the message)"""
    plant = None        # (task name, cell) while run B is in progress

    def add_failure(self, task, fail):
        runlib.RecReporter.add_failure(self, task, fail)
        pl = PlantReporter.plant
        if pl is not None and task.name == pl[0]:
            pl[1]['aborted'] = 'report'
            raise RuntimeError('reporter cannot print the failure of %s' % task.name)


def _make_teardown(rec, cell, n, t, case):
    base = runlib._make_teardown(rec[0], n)
    ab = case.get('abort') or {}

    def teardown():
        base()
        if cell['phase'] == 'B' and ab.get('kind') == 'teardown' and ab.get('task') == t['name']:
            cell['aborted'] = 'teardown'
            if ab.get('exc') == 'SystemExit':
                raise SystemExit(3)
            raise KeyboardInterrupt()
    return teardown


def build_namespace(case, rec, cell):
    from doit.task import result_dep
    tasks = case['tasks']

    def task_gen():
        for n, t in enumerate(tasks):
            if t['kind'] == 'group':
                if t['task_dep']:
                    yield {'basename': t['name'], 'name': None, 'task_dep': list(t['task_dep'])}
                continue
            d = {'actions': _make_actions(rec, cell, n, t)}
            ab = case.get('abort') or {}
            if cell['phase'] == 'B' and ab.get('kind') == 'invalid' and ab.get('task') == t['name']:
                # lazily invalid: found out only when the runner instantiates the actions of this task
                d['actions'] = d['actions'] + [3 if ab.get('form') == 'int' else (d['actions'][0], [], {}, 1)]
            if t['kind'] == 'sub':
                d['basename'] = t['group']
                d['name'] = t['name'].split(':', 1)[1]
            else:
                d['basename'] = t['name']
            for k in ('task_dep', 'setup', 'calc_dep', 'targets'):
                if t[k]:
                    d[k] = list(t[k])
            if t.get('wild_dep'):
                d['task_dep'] = d.get('task_dep', []) + ['%s:*' % g for g in t['wild_dep']]
            fd = list(t['file_dep'])
            if stateless(case, t):
                upt = [True]
            else:
                fd.append('in_' + fsname(t['name']))
                upt = [_make_flag(cell, t)]
            if t['outcome'] == 'saveerr':
                fd.append('gone_' + fsname(t['name']))
            if fd:
                d['file_dep'] = fd
            for r in t['result_dep']:
                upt.append(result_dep(r))
            d['uptodate'] = upt
            if t['getargs']:
                d['getargs'] = {a: (src, key) for a, src, key in t['getargs']}
            if t['teardown']:
                d['teardown'] = [_make_teardown(rec, cell, n, t, case)]
            yield d
    return {'task_gen': task_gen,
            # absolute: a DB handle that doit leaks (close() dying half-way, as before 8fa62ea) and that is
            # finalised later must not write into the scratch directory of a LATER case (dbm.dumb keeps relative names)
            'DOIT_CONFIG': {'dep_file': os.path.abspath('depdb'), 'backend': case['backend'], 'verbosity': 0,
                            'reporter': PlantReporter}}


def _write(path, text, mtime=FIXED_MTIME):
    with open(path, 'w') as fh:
        fh.write(text)
    os.utime(path, (mtime, mtime))


def _db_class(backend):
    from doit import dependency as D
    return {'json': D.JsonDB, 'dbm': D.DbmDB, 'sqlite3': D.SqliteDB}[backend]


class _Stub(object):
    def __init__(self, name):
        self.name = name


def _open_db(case):
    from doit.dependency import Dependency
    return Dependency(_db_class(case['backend']), os.path.abspath('depdb'))


def _doit(ns, argv):
    from doit.doit_cmd import DoitMain
    from doit.cmd_base import ModuleTaskLoader
    exc, code = None, None
    try:
        code = DoitMain(ModuleTaskLoader(ns)).run(argv)
    except SystemExit as e:
        code = e.code if isinstance(e.code, int) else 3
    except BaseException as e:  # noqa -- a crash of doit is data
        exc = e
    return code, exc


def run_phases(case, watchdog=None, keep_raw=False):
    """warm-up run A (optional), measured run B, next run C on the same DB.  Returns OBS of run B (runlib format) plus
    'recorded' (per task: success record present after B, read through the backend API), 'next' (canonical trace of
    run C, exit), 'warm' (exit of run A)."""
    common.use_repo()
    runlib._cache_entry_points()
    runner = case['runner']
    if watchdog is None:
        watchdog = 8.0 if runner == 'process' else 16.0
    names = [t['name'] for t in case['tasks']]
    t0 = time.time()
    old_out, old_err = sys.stdout, sys.stderr
    out, err = io.StringIO(), io.StringIO()
    use_alarm = threading.current_thread() is threading.main_thread()
    cell = {'phase': 'A'}
    rec = [None]
    obs = {}
    sel_args = list(case['sel']) if case.get('sel') is not None else []
    with common.in_scratch('c05'):
        old_handler = None
        sched = ctl = restore = None
        exc = code = None
        schedule = None
        raw = []
        err_b = None
        try:
            sys.stdout, sys.stderr = out, err
            if use_alarm:
                old_handler = signal.signal(signal.SIGALRM, runlib._alarm)
            # ---- files: targets, per-task input, files that will be missing / deleted in run B
            for t in case['tasks']:
                for f in t['targets']:
                    _write(f, 'initial\n')
                if t['kind'] != 'group':
                    _write('in_' + fsname(t['name']), 'input of %s\n' % t['name'])
                    if t['outcome'] == 'saveerr':
                        _write('gone_' + fsname(t['name']), 'volatile input of %s\n' % t['name'])
                for f in t['file_dep']:
                    if f.startswith('missing_'):
                        _write(f, 'sometimes missing\n')
            # ---- run A
            if case['warm']:
                rec[0] = runlib.Recorder('mem', names)
                runlib._REC = rec[0]
                if use_alarm:
                    signal.setitimer(signal.ITIMER_REAL, watchdog)
                ca, ea = _doit(build_namespace(case, rec, cell), ['run', '--continue'] + sel_args)
                if use_alarm:
                    signal.setitimer(signal.ITIMER_REAL, 0)
                obs['warm'] = {'exit': ca, 'exc': type(ea).__name__ if ea is not None else None,
                               'failures': [e for e in rec[0].all() if e[0] == 'failure']}
            # ---- between A and B: ignore marks, missing files
            ign = [t['name'] for t in case['tasks'] if t['ignored']]
            if ign:
                dm = _open_db(case)
                for name in ign:
                    dm.ignore(_Stub(name))
                dm.close()
            for t in case['tasks']:
                for f in t['file_dep']:
                    if f.startswith('missing_') and os.path.exists(f):
                        os.unlink(f)
            for t in case['tasks']:
                if dep_triggered(t) and not stateless(case, t):
                    # (stays as it is for run C: that is what the last execution saw)
                    _write('in_' + fsname(t['name']), 'input of %s, second and longer version\n' % t['name'],
                           FIXED_MTIME + 60)
            # ---- run B
            cell['phase'] = 'B'
            rec[0] = runlib.Recorder('file' if runner == 'process' else 'mem', names, path=os.path.abspath('events.jsonl'))
            rec[0].td_events = bool(case.get('td_events'))
            runlib._REC = rec[0]
            ns = build_namespace(case, rec, cell)
            if runner == 'thread':
                sched = runlib.Sched(runlib.make_policy(case.get('policy')), script=case.get('schedule'),
                                     watchdog=watchdog / 2)
                rec[0].sched = sched
                restore = runlib.install_thread_scheduler(sched)
            elif runner == 'process':
                restore = runlib.install_process_counter(rec[0])
                ctl = runlib.TokenController(rec[0].path, case['nproc'], seed=(case.get('policy') or {}).get('seed', 0),
                                             script=case.get('schedule'))
                ctl.start()
            if use_alarm:
                signal.setitimer(signal.ITIMER_REAL, watchdog)
            err_b = io.StringIO()
            sys.stderr = err_b
            ab = case.get('abort') or {}
            if ab.get('kind') == 'report':
                PlantReporter.plant = (ab['task'], cell)
            try:
                code, exc = _doit(ns, runlib.argv_of(case))
            finally:
                PlantReporter.plant = None
                sys.stderr = err
                if use_alarm:
                    signal.setitimer(signal.ITIMER_REAL, 0)
                if restore:
                    restore()
                    restore = None
                if sched is not None:
                    sched.close()
                if ctl is not None:
                    schedule = ctl.stop()
                    ctl = None
                if runner == 'process':
                    runlib._reap_children()
            raw = rec[0].all()
            rec[0].close()
            # ---- DB content after B (backend API)
            recorded = []
            try:
                dm = _open_db(case)
                for t in case['tasks']:
                    has = any(dm._get(t['name'], k) is not None for k in ('deps:', 'checker:', '_values_:', 'result:'))
                    recorded.append(bool(has))
                dm.close()
            except Exception as e:  # noqa
                recorded = None
                obs['db_exc'] = type(e).__name__ + ': ' + str(e)[:200]
            obs['recorded'] = recorded
            # ---- between B and C: every input as the last successful execution saw it
            for t in case['tasks']:
                if t['kind'] != 'group' and t['outcome'] == 'saveerr':
                    _write('gone_' + fsname(t['name']), 'volatile input of %s\n' % t['name'])
                for f in t['file_dep']:
                    if f.startswith('missing_'):
                        _write(f, 'sometimes missing\n')
            # ---- run C
            cell['phase'] = 'C'
            rec[0] = runlib.Recorder('mem', names)
            runlib._REC = rec[0]
            if use_alarm:
                signal.setitimer(signal.ITIMER_REAL, watchdog)
            cc, ec = _doit(build_namespace(case, rec, cell), ['run', '--continue'] + sel_args)
            if use_alarm:
                signal.setitimer(signal.ITIMER_REAL, 0)
            obs['next'] = {'trace': runlib.canonical_trace(rec[0].all(), 'serial'), 'exit': cc,
                           'exc': type(ec).__name__ if ec is not None else None}
        finally:
            if use_alarm:
                signal.setitimer(signal.ITIMER_REAL, 0)
                if old_handler is not None:
                    signal.signal(signal.SIGALRM, old_handler)
            sys.stdout, sys.stderr = old_out, old_err
            if restore:
                restore()
            if sched is not None:
                sched.close()
            if ctl is not None:
                ctl.stop()
            if runner == 'process':
                runlib._reap_children()
            runlib._REC = None
            gc.collect()        # finalise whatever the three runs leaked while their directory still exists
    stderr_text = err_b.getvalue() if err_b is not None else err.getvalue()
    obs['aborted'] = cell.get('aborted')
    if (case.get('abort') or {}).get('kind') == 'invalid' and any(e[0] == 'runtime_error' for e in raw):
        obs['aborted'] = 'invalid'
    if any(t.get('outcome') == 'saveerr-values' for t in case['tasks']) and exc is None and code == 3 \
            and 'not JSON serializable' in stderr_text:
        obs['aborted'] = 'flush'      # the run died in dep_manager.close() (the defect repaired by 8fa62ea)
    obs['act3'] = [e[1] for e in raw if e[0] == 'act3']
    obs.update({'trace': runlib.canonical_trace(raw, runner), 'exit': code,
                'err': runlib.classify_err(exc, stderr_text),
                'stderr': stderr_text[-600:], 'ms': round((time.time() - t0) * 1000, 2)})
    if exc is not None and not isinstance(exc, (runlib.SchedDeadlock, runlib._Watchdog)):
        obs['exc'] = ''.join(traceback.format_exception_only(type(exc), exc))[-300:]
    for e in raw:
        if e[0] == 'initialize':
            obs['selected'] = e[1]
            break
    if keep_raw:
        obs['raw'] = raw
    if sched is not None:
        obs['schedule'] = list(sched.decisions)
        obs['sched'] = {'alts': list(sched.alts), 'decisions': len(sched.decisions)}
    elif schedule is not None:
        obs['schedule'] = schedule
    return obs


# ======================================================================================================
# python reference monitors
# ======================================================================================================

def _finished(trace):
    return set(e[1] for e in trace if e[0] in ('success', 'skip_uptodate'))


def edges_of(model, trace, t, fin=None, utd=None):
    fin = _finished(trace) if fin is None else fin
    utd = set(e[1] for e in trace if e[0] == 'skip_uptodate') if utd is None else utd
    cs = list(model['calcDep'][t])
    for _ in range(model['n'] + 1):
        new = []
        for c in cs:
            if c in fin and model['calcRes'][c]:
                new += model['calcRes'][c]['calc']
        grew = False
        for x in new:
            if x not in cs:
                cs.append(x)
                grew = True
        if not grew:
            break
    out = list(model['taskDep'][t]) + ([] if t in utd else list(model['setup'][t])) + cs
    for c in cs:
        if c in fin and model['calcRes'][c]:
            out += model['calcRes'][c]['task'] + model['calcRes'][c]['file']
    return out


def dep_closure(model, trace, t, fin, utd):
    seen = []
    todo = list(edges_of(model, trace, t, fin, utd))
    while todo:
        x = todo.pop()
        if x in seen or not (0 <= x < model['n']):
            continue
        seen.append(x)
        todo += edges_of(model, trace, x, fin, utd)
    return seen


def truth_trace(case, obs):
    """(trace', tasks): the trace with the `success` report of every task that was EXECUTED in run B and whose action
    failed by construction (oracle outcome failed / error / saveerr) replaced by the failure report it should have been;
    tasks = those tasks (empty on a tree that recognises every failure: then trace' == trace)"""
    tr = obs['trace']
    started = set(e[1] for e in tr if e[0] == 'start')
    kind = {'failed': 'failed', 'error': 'error', 'saveerr': 'deperr', 'saveerr-values': 'deperr'}
    wrong = []
    out = []
    for e in tr:
        if e[0] == 'success' and e[1] in started and 0 <= e[1] < len(case['tasks']) \
                and case['tasks'][e[1]]['kind'] != 'group' and case['tasks'][e[1]]['outcome'] in kind:
            wrong.append(e[1])
            out.append(['failure', e[1], kind[case['tasks'][e[1]]['outcome']]])
        else:
            out.append(e)
    return out, wrong


def py_monitors(case, obs):
    flags, wit = _py_monitors(case, obs)
    for k in ('C05_failure_recognised', 'C05_truth_reexecuted') + tuple(TRUTH_LEAN_KEYS):
        flags[k] = True
    flags['C05_later_actions_skipped'] = True
    flags['C05_invalid_action_contained'] = True
    # a task stops at its first failing action: action 3 of a multi-action task never runs after action 2 failed
    for n in obs.get('act3') or []:
        t = case['tasks'][n]
        if t['outcome'] in ('failed', 'error'):
            flags['C05_later_actions_skipped'] = False
            wit['later_actions_skipped'] = {'task': n, 'action_3_ran_after_action_2_failed': True}
            break
    # a task with a lazily invalid action is never executed nor reported successful, nothing that depends on it ever
    # starts, and once the runner got to it the command does not exit 0
    ab = case.get('abort') or {}
    if ab.get('kind') == 'invalid':
        bad_t = runlib.task_index(case).get(ab['task'])
        tr0 = obs['trace']
        fin0 = _finished(tr0)
        utd0 = set(e[1] for e in tr0 if e[0] == 'skip_uptodate')
        for e in tr0:
            if e[0] in ('start', 'success') and e[1] == bad_t:
                flags['C05_invalid_action_contained'] = False
                wit['invalid_action_contained'] = {'invalid_task': bad_t, 'event': e}
                break
            if e[0] == 'start' and bad_t in dep_closure(case['model'], tr0, e[1], fin0, utd0):
                flags['C05_invalid_action_contained'] = False
                wit['invalid_action_contained'] = {'invalid_task': bad_t, 'dependent_started': e[1]}
                break
        reached = any(e[0] == 'runtime_error' or (e[0] == 'execute' and e[1] == bad_t) for e in tr0)
        if reached and obs.get('exit') == 0 and flags['C05_invalid_action_contained']:
            flags['C05_invalid_action_contained'] = False
            wit['invalid_action_contained'] = {'invalid_task': bad_t, 'exit_code': 0}
    tt, wrong = truth_trace(case, obs)
    if wrong:
        flags['C05_failure_recognised'] = False
        wit['failure_recognised'] = {'tasks_whose_action_failed_but_were_reported_successful': wrong}
        f2, w2 = _py_monitors(case, dict(obs, trace=tt))
        for k in ('no_dependent_runs', 'serial_stops', 'not_recorded', 'reexecuted'):
            flags['C05_truth_' + k] = f2['C05_' + k]
            if k in w2:
                wit['truth_' + k] = w2[k]
    return flags, wit


def _py_monitors(case, obs):
    model = case['model']
    tr = obs['trace']
    n = model['n']
    fin = _finished(tr)
    utd = set(e[1] for e in tr if e[0] == 'skip_uptodate')
    flags = {k: True for k in ALL_KEYS}
    wit = {}
    # (a)
    failed = []
    clo = {}
    for i, e in enumerate(tr):
        if e[0] == 'start':
            t = e[1]
            if t not in clo:
                clo[t] = dep_closure(model, tr, t, fin, utd)
            bad = [d for d in failed if d in clo[t]]
            if bad and flags['C05_no_dependent_runs']:
                flags['C05_no_dependent_runs'] = False
                wit['no_dependent_runs'] = {'started': t, 'at': i, 'after_failure_of': bad}
        elif e[0] == 'failure':
            failed.append(e[1])
    failed_set = set(failed)
    # (d)
    if model['runner'] == 'serial' and not model['cont']:
        seen = False
        for i, e in enumerate(tr):
            if e[0] == 'start' and seen:
                flags['C05_serial_stops'] = False
                wit['serial_stops'] = {'started': e[1], 'at': i}
                break
            if e[0] == 'failure':
                seen = True
    # (c)
    ex = obs['exit'] if obs['exit'] is not None else -1
    if model['cont'] and 0 <= ex <= 2 and tr and tr[-1] == ['complete'] and not any(e[0] == 'runtime_error' for e in tr):
        closure = runlib.closure_of(case, tr)
        for t in closure:
            k = sum(1 for e in tr if e[0] in runlib.TERMINAL and e[1] == t)
            if k != 1:
                flags['C05_continue_complete'] = False
                wit['continue_complete'] = {'task': t, 'terminal_reports': k}
                break
        for e in tr:
            if e[0] == 'failure' and e[2] == 'unmet':
                if not any(d in failed_set for d in edges_of(model, tr, e[1], fin, utd)):
                    flags['C05_continue_complete'] = False
                    wit['continue_complete'] = {'task': e[1], 'unmet_without_failed_dependency': True}
                    break
    # (b) M1 part: DB content after run B
    recd = obs.get('recorded')
    if recd is not None:
        for t in sorted(failed_set):
            if t < len(recd) and recd[t]:
                flags['C05_not_recorded'] = False
                wit['not_recorded'] = {'task': t, 'record_present_after_failure': True}
                break
    # (b) next run
    nxt = obs.get('next')
    if nxt is not None and failed_set:
        ntr = nxt['trace']
        nfail = [e for e in ntr if e[0] == 'failure']
        for t in sorted(failed_set):
            tt = case['tasks'][t]
            if stateless(case, tt):
                continue
            reports = [e[0] for e in ntr if e[0] in runlib.TERMINAL and e[1] == t]
            if 'skip_uptodate' in reports:
                flags['C05_reexecuted'] = False
                wit['reexecuted'] = {'task': t, 'next_run': 'skip_uptodate'}
                break
            if reports and not nfail and nxt['exit'] == 0 and 'skip_ignore' not in reports \
                    and not any(e[0] == 'start' and e[1] == t for e in ntr):
                flags['C05_reexecuted'] = False
                wit['reexecuted'] = {'task': t, 'next_run': 'reported %s but not executed' % reports}
                break
    return flags, wit


# ======================================================================================================
# Lean side, judging, shrinking
# ======================================================================================================

# reporter callbacks that are no events of M1 (runs in which they occur are monitors-only, see judge)
NOT_M1_EVENTS = ('runtime_error', 'cleanup_error')


def model_request(case, obs):
    req = runlib.model_request(case, obs, op='check')
    req['model'] = 'c05'
    if obs.get('recorded') is not None:
        req['recorded'] = obs['recorded']
    tt, wrong = truth_trace(case, obs)
    if wrong:
        req['truthTrace'] = [e for e in tt if e[0] not in NOT_M1_EVENTS]
    if any(e[0] == 'runtime_error' for e in req['trace']):
        # "Execution aborted" (InvalidTask raised inside the runner): doit ends the run with exit code 2 although it did
        # not process the rest; for (c) this is an aborted run (reported to the coordinator as a question, see
        # findings/pending/C05-lazy-invalid-action-aborts.md), the Lean monitor is told so through the exit code
        req['exit'] = 3
    req['trace'] = [e for e in req['trace'] if e[0] not in NOT_M1_EVENTS]
    return req


def lean_flags(ans):
    d = dict(ans.get('monitor') or {})
    d.update(ans.get('monitor_truth') or {})
    return d


def ask_model(pairs):
    reqs = [model_request(c, o) for c, o in pairs]
    if not reqs:
        return []
    try:
        return common.drv_batch(reqs)
    except Exception as ex:  # noqa
        return [{'error': 'driver failed: %s' % str(ex)[:200]} for _ in reqs]


def render(case):
    extra = []
    for t in case['tasks']:
        if t.get('outcome') == 'saveerr':
            extra.append('%s: its file_dep gone_%s is deleted while it executes (cannot be saved)' % (t['name'], fsname(t['name'])))
    for t in case['tasks']:
        if t.get('outcome') == 'saveerr-values':
            extra.append('%s: its action returns a value of type %s among its values (cannot be stored in the DB)'
                         % (t['name'], t.get('badval', 'set')))
        if dep_triggered(t) and case.get('warm'):
            extra.append('%s: executes again because its file_dep in_%s was modified after the warm-up run (uptodate true)'
                         % (t['name'], fsname(t['name'])))
        if t.get('multi'):
            extra.append('%s: three actions (marks+values, the outcome, more targets+values)' % t['name'])
        if t.get('wild_dep'):
            extra.append('%s: task_dep also %s' % (t['name'], ['%s:*' % g for g in t['wild_dep']]))
    ab = case.get('abort')
    if ab and ab['kind'] == 'invalid':
        extra.append('the action list of %s ends with an invalid action (%s) in the failing run' % (ab['task'], ab.get('form')))
    elif ab and ab['kind'] == 'report':
        extra.append('the reporter raises inside add_failure(%s) in the failing run' % ab['task'])
    elif ab:
        extra.append('the teardown action of %s raises %s in the failing run' % (ab['task'], ab.get('exc', 'KeyboardInterrupt')))
    head = 'backend=%s  warm-up run=%s' % (case.get('backend'), case.get('warm'))
    return head + '\n' + runlib.render(case) + ('\n' + '\n'.join(extra) if extra else '')


def make_witness(case, obs, failed, py, lean, detail):
    w = runlib.make_witness(case, obs, failed, py, lean, detail)
    w['rendered'] = render(case).split('\n')
    w['recorded_after_run'] = obs.get('recorded')
    w['next_run'] = obs.get('next')
    w['warm_up'] = obs.get('warm')
    w['aborted_by'] = obs.get('aborted')
    return w


def case_ok(case, obs):
    """the harness's own preconditions: the warm-up run must have been clean"""
    w = obs.get('warm')
    return w is None or (w['exit'] == 0 and not w['failures'] and w['exc'] is None)


def failing_keys(case, obs, lean=None):
    py, wit = py_monitors(case, obs)
    bad = [k for k in ALL_KEYS if not py.get(k, True) or (lean is not None and k in lean and not lean[k])]
    return bad, py, wit


def judge(case, obs, ans, st, shrink_left):
    st.traces += 1
    lean = None
    if not case_ok(case, obs):
        st.count('warmup_not_clean')     # harness precondition not met: case not judged (counted, never silent)
        return 0
    if ans is None or 'error' in ans:
        st.count('driver_unavailable')
    else:
        lean = lean_flags(ans)
        if ans.get('skipped'):
            st.count('model_search_skipped')
        if not obs.get('aborted'):
            st.count('model:accepted' if ans.get('accepted') else 'model:rejected')
    failed, py, wit = failing_keys(case, obs, lean)
    used = 0
    if failed:
        first = failed[0]
        wit0 = make_witness(case, obs, failed, py, lean, wit)

        def still(c):
            c = prepare(c)
            o = run_phases(c)
            if not case_ok(c, o):
                return False
            b, _p, _w = failing_keys(c, o)
            return first in b
        small = case
        if shrink_left > 0 and not py.get(first, True):
            t0 = time.time()
            base = dict(case)
            base.pop('schedule', None)
            small = prepare(runlib.shrink(base, still, max_tests=80, max_seconds=min(15.0, shrink_left)))
            used = time.time() - t0
        o2 = run_phases(small)
        a2 = ask_model([(small, o2)])[0]
        l2 = None if 'error' in a2 else lean_flags(a2)
        bad2, p2, w2 = failing_keys(small, o2, l2)
        wit_ = make_witness(small, o2, bad2, p2, l2, w2) if (bad2 and case_ok(small, o2)) else wit0
        st.violation(wit_, 'monitor:' + ','.join(wit_['failed_monitors']),
                     '%s false on the implementation (%s)' % (wit_['failed_monitors'], wit_['detail']))
        st.count('violation_found')
        return used
    if lean is not None:
        disagree = [k for k in LEAN_KEYS + TRUTH_LEAN_KEYS if py.get(k, True) != lean.get(k, True)]
        if disagree:
            st.divergence(make_witness(case, obs, disagree, py, lean, wit),
                          'python and Lean monitors disagree on %s' % disagree)
        elif obs.get('aborted'):
            # the run was cut short by the planted exception (reporter / teardown): M1 has no such transition; only the
            # property statements are evaluated on these runs
            st.count('aborted_run:acceptance_not_applicable')
        elif not ans.get('accepted') and not ans.get('skipped'):
            w = make_witness(case, obs, [], py, lean, {})
            w['matched'] = ans.get('matched')
            w['expected'] = ans.get('expected')
            w['request'] = model_request(case, obs)
            st.divergence(w, 'correspondence M1 (failing runs): model cannot produce the implementation trace; matched '
                             '%s events, next impl events %s, model could emit %s'
                          % (ans.get('matched'), obs['trace'][ans.get('matched') or 0:(ans.get('matched') or 0) + 2],
                             ans.get('expected')))
    return used


def count_case(st, case, obs):
    runlib.count_case(st, case, obs)
    if any(x for x in (case['model'].get('calcResFail') or [])):
        st.count('fail_delivery_case')
    for t in case['tasks']:
        if t.get('multi'):
            st.count('multi_action_task')
            if t['outcome'] in ('failed', 'error') and any(e[0] == 'start' and e[1] == case['tasks'].index(t) for e in obs['trace']):
                st.count('multi_action_task:failed_in_action_2')
        if t.get('wild_dep'):
            st.count('wildcard_task_dep')
            subs = [i for i, x in enumerate(case['tasks']) if x['kind'] == 'sub' and x['group'] in t['wild_dep']]
            if any(e[0] == 'failure' and e[1] in subs for e in obs['trace']):
                st.count('wildcard_task_dep:sub_task_failed')
        if t.get('outcome') == 'saveerr-values':
            st.count('unsavable_values:%s' % t.get('badval'))
        if dep_triggered(t) and case['warm'] and not stateless(case, t):
            i_ = case['tasks'].index(t)
            if any(e[0] == 'start' and e[1] == i_ for e in obs['trace']):
                st.count('reexecuted_by_modified_file_dep')
                if t['outcome'] == 'saveerr':
                    st.count('reexecuted_by_modified_file_dep:unmodified_dep_vanishes')
    if obs.get('aborted') == 'flush':
        st.count('aborted_run:db_flush_failed')
    if case.get('abort'):
        st.count('abort_plant:%s' % case['abort']['kind'])
        st.count('abort_plant_fired:%s' % obs.get('aborted'))
    st.count('backend:%s' % case['backend'])
    st.count('warm:%s' % case['warm'])
    kinds = set()
    for e in obs['trace']:
        if e[0] == 'failure':
            kinds.add(e[2])
    for k in sorted(kinds):
        st.count('failure_kind:%s' % k)
    st.count('failures_in_run:%d' % min(4, sum(1 for e in obs['trace'] if e[0] == 'failure')))
    for t in case['tasks']:
        if t['kind'] != 'group' and (t['outcome'] != 'ok'):
            st.count('placement:%s/%s' % (t['outcome'], t.get('how', 'return') if t['outcome'] != 'saveerr' else '-'))
        if t['status'] == 'error':
            st.count('placement:missing_file_dep_before')
    failed = set(e[1] for e in obs['trace'] if e[0] == 'failure')
    if failed:
        m = case['model']
        for i in range(m['n']):
            for kind, lst in (('task_dep', m['taskDep'][i]), ('setup', m['setup'][i]), ('calc_dep', m['calcDep'][i])):
                if any(d in failed for d in lst):
                    st.count('edge_to_failed:%s' % kind)
        for t in case['tasks']:
            i = runlib.task_index(case)[t['name']]
            if t['getargs'] and any(runlib.task_index(case)[g[1]] in failed for g in t['getargs']):
                st.count('edge_to_failed:getargs')
            if t['result_dep'] and any(runlib.task_index(case)[r] in failed for r in t['result_dep']):
                st.count('edge_to_failed:result_dep')
            own = runlib.target_owner(case)
            if any(own.get(f) in failed for f in t['file_dep']):
                st.count('edge_to_failed:file_dep')
            del i
    nxt = obs.get('next') or {}
    if failed and any(e[0] == 'start' and e[1] in failed for e in nxt.get('trace', [])):
        st.count('next_run:failed_task_reexecuted')
    if obs.get('recorded') is not None:
        st.count('db_dump_ok')


def nontrivial(case, obs):
    return runlib.nontrivial(case, obs) and any(e[0] == 'failure' for e in obs['trace'])


def enumerate_schedules(case, limit=64, on_obs=None):
    """every completion order of a thread case under eager dispatch (stateless DFS over the scheduler's decision tree,
    as runlib.enumerate_schedules, but each run is the three-run history)"""
    stack = [[]]
    runs = 0
    while stack and runs < limit:
        prefix = stack.pop()
        c = dict(case)
        c['policy'] = {'kind': 'eager'}
        c['schedule'] = prefix
        obs = run_phases(c)
        runs += 1
        dec = obs.get('schedule') or []
        alts = (obs.get('sched') or {}).get('alts') or []
        c['schedule'] = list(dec)
        if on_obs:
            on_obs(c, obs)
        for pos in range(len(dec) - 1, len(prefix) - 1, -1):
            for alt in (alts[pos] if pos < len(alts) else []):
                if alt != dec[pos]:
                    stack.append(dec[:pos] + [alt])
    return runs, not stack


def eval_batch(batch):
    """worker: batch = {'cases': [case...]} and/or {'gen': [(seed, knobs)...]} and/or {'explore': [thread case...]}"""
    if batch.get('delayed'):
        return eval_delayed(batch)
    st = common.WorkerStats()
    common.use_repo()
    pairs = []
    for c in batch.get('cases', []):
        c = prepare(json.loads(json.dumps({k: v for k, v in c.items() if k != 'model'})))
        pairs.append((c, run_phases(c)))
    for seed, knobs in batch.get('gen', []):
        rng = random.Random(seed)
        knobs = dict(knobs)
        c = gen_case(rng, **knobs)
        c['seed'] = seed
        pairs.append((c, run_phases(c)))
    for c in batch.get('explore', []):
        c = prepare(json.loads(json.dumps({k: v for k, v in c.items() if k != 'model'})))
        got = []
        runs, done = enumerate_schedules(c, limit=batch.get('limit', 48), on_obs=lambda cc, oo: got.append((cc, oo)))
        st.count('exhaustive:cases')
        st.count('exhaustive:schedules', runs)
        if not done:
            st.count('exhaustive:truncated')
        pairs += got
    answers = ask_model(pairs)
    shrink_left = batch.get('shrink_s', 20.0)
    for (c, o), a in zip(pairs, answers):
        st.case({'case': render(c).split('\n'), 'schedule': o.get('schedule')}, nontrivial(c, o))
        count_case(st, c, o)
        if len(st.violations) - getattr(st, 'known_local', 0) >= 2:
            shrink_left = 0
        if len(st.violations) - getattr(st, 'known_local', 0) >= 4:
            st.count('not_judged_after_4_violations_in_batch')
            continue
        shrink_left -= judge(c, o, a, st, shrink_left)
    return st


# ======================================================================================================
# round 6: delayed task-creators (`@create_after(executed=X)`) below a failing task -- monitors only
# ======================================================================================================
# M1 has no delayed creators (they are M-delayed / C15's model): this slice evaluates the STATEMENT of C05 (Python trace
# predicates) on runs of the real doit, without trace acceptance; counted under `delayed_slice:monitors_only`.
# A case: optional failing task `f`; the trigger `pre` (fails itself / is unmet below `f` / is ignored / succeeds); a
# creator delayed until `pre` was executed that makes ONE plain task `late` (shape plain) or a GROUP `late` with k
# sub-tasks (shape group); a task `d` depending on `late` (task_dep / setup); an independent task `z`.
# History: optional warm-up run (everything succeeds), the failing run B, the next run C (everything succeeds).

_DL_LOCK = threading.Lock()
_DL_EVENTS = []


def _dl_ev(e):
    with _DL_LOCK:
        _DL_EVENTS.append(e)


class DelayedReporter(object):
    desc = 'recording reporter of the C05 delayed slice'

    def __init__(self, outstream, options):
        pass

    def initialize(self, tasks, selected_tasks):
        pass

    def get_status(self, task):
        pass

    def execute_task(self, task):
        pass

    def add_failure(self, task, fail):
        _dl_ev(['failure', task.name, type(fail).__name__])

    def add_success(self, task):
        _dl_ev(['success', task.name])

    def skip_uptodate(self, task):
        _dl_ev(['skip_uptodate', task.name])

    def skip_ignore(self, task):
        _dl_ev(['skip_ignore', task.name])

    def cleanup_error(self, exception):
        _dl_ev(['cleanup_error'])

    def runtime_error(self, msg):
        _dl_ev(['runtime_error', str(msg)[:200]])

    def teardown_task(self, task):
        pass

    def complete_run(self):
        _dl_ev(['complete'])


DL_PRE = [('failed', 'return'), ('failed', 'object'), ('error', 'raise'), ('error', 'object'), ('failed', 'cmd'),
          ('missing', '-'), ('unmet', '-'), ('ignored', '-'), ('ok', '-')]


def gen_delayed(rng):
    out, how = rng.choice(DL_PRE[:7] * 3 + DL_PRE)
    return {'delayed': True, 'pre': out, 'how': how, 'shape': rng.choice(['plain', 'plain', 'group']),
            'subs': rng.randint(1, 3), 'dependent': rng.choice([None, 'task_dep', 'setup']),
            'late_first': rng.random() < 0.4, 'runner': rng.choice(['serial', 'serial', 'thread']),
            'nproc': rng.randint(1, 3), 'cont': rng.random() < 0.75, 'warm': rng.random() < 0.35,
            'backend': rng.choice(BACKENDS), 'sel': rng.choice([None, None, ['late', 'z'], ['d', 'z'], ['z', 'late']])}


def dl_names(case):
    """(all task names, names that depend on `pre` by construction)"""
    late = ['late'] + (['late:s%d' % i for i in range(case['subs'])] if case['shape'] == 'group' else [])
    dep = list(late) + (['d'] if case['dependent'] else [])
    return late, dep


def dl_render(case):
    late, _dep = dl_names(case)
    lines = ['backend=%s warm-up run=%s' % (case['backend'], case['warm'])]
    if case['pre'] == 'unmet':
        lines.append('f: action returns False in the failing run')
    lines.append('pre: %s%s' % ({'unmet': "task_dep=['f']", 'missing': "file_dep=['missing_pre'] (does not exist in the failing run)",
                                 'ignored': 'marked with `doit ignore` before the failing run',
                                 'ok': 'succeeds'}.get(case['pre'], 'action %s (%s) in the failing run' % (case['pre'], case['how'])),
                                ''))
    lines.append("@create_after(executed='pre') task_late: %s%s" % (
        'returns ONE plain task `late`' if case['shape'] == 'plain' else 'yields sub-tasks %s of group `late`' % late[1:],
        ' (defined before task_pre)' if case['late_first'] else ''))
    if case['dependent']:
        lines.append("d: %s=['late']" % case['dependent'])
    lines.append('z: independent')
    sel = case.get('sel')
    if sel and 'd' in sel and not case['dependent']:
        sel = [x for x in sel if x != 'd'] + ['late']
    lines.append('$ doit run %s%s%s' % ('--continue ' if case['cont'] else '',
                                        ('-n %d -P thread ' % case['nproc']) if case['runner'] == 'thread' else '',
                                        ' '.join(sel or [])))
    return '\n'.join(lines)


def dl_namespace(case, cell):
    from doit import create_after
    from doit.exceptions import TaskFailed, TaskError

    def act(name):
        def action():
            _dl_ev(['start', name])
            return True
        action.__name__ = 'act_' + fsname(name)
        return action

    def pre_action():
        _dl_ev(['start', 'pre'])
        if cell['phase'] != 'B' or case['pre'] not in ('failed', 'error') or case['how'] == 'cmd':
            return True
        return _fail_now(case['pre'], case['how'])

    def f_action():
        _dl_ev(['start', 'f'])
        return cell['phase'] != 'B'

    def task_pre():
        d = {'actions': [pre_action]}
        if case['pre'] == 'failed' and case['how'] == 'cmd' and cell['phase'] == 'B':
            d['actions'].append('exit 1')
        if case['pre'] == 'unmet':
            d['task_dep'] = ['f']
        if case['pre'] == 'missing':
            d['file_dep'] = ['missing_pre']
        return d

    def late_creator():
        _dl_ev(['created'])
        if case['shape'] == 'plain':
            return {'actions': [act('late')]}
        return ({'name': 's%d' % i, 'actions': [act('late:s%d' % i)]} for i in range(case['subs']))
    task_late = create_after(executed='pre')(late_creator)
    ns = {}
    if case['late_first']:
        ns['task_late'] = task_late
    if case['pre'] == 'unmet':
        ns['task_f'] = lambda: {'actions': [f_action]}
    ns['task_pre'] = task_pre
    ns['task_late'] = task_late
    if case['dependent']:
        ns['task_d'] = lambda: {'actions': [act('d')], case['dependent']: ['late']}
    ns['task_z'] = lambda: {'actions': [act('z')]}
    ns['DOIT_CONFIG'] = {'dep_file': os.path.abspath('depdb'), 'backend': case['backend'], 'verbosity': 0,
                         'reporter': DelayedReporter}
    return ns


def dl_run(case, watchdog=12.0):
    common.use_repo()
    old_out, old_err = sys.stdout, sys.stderr
    out = io.StringIO()
    use_alarm = threading.current_thread() is threading.main_thread()
    old_handler = None
    cell = {'phase': 'A'}
    obs = {}
    sel = list(case.get('sel') or [])
    if 'd' in sel and not case['dependent']:
        sel = [x for x in sel if x != 'd'] + ['late']
    with common.in_scratch('c05dl'):
        try:
            sys.stdout = sys.stderr = out
            if use_alarm:
                old_handler = signal.signal(signal.SIGALRM, runlib._alarm)
            _write('missing_pre', 'sometimes missing\n')

            def one(argv):
                del _DL_EVENTS[:]
                if use_alarm:
                    signal.setitimer(signal.ITIMER_REAL, watchdog)
                try:
                    code, exc = _doit(dl_namespace(case, cell), argv)
                finally:
                    if use_alarm:
                        signal.setitimer(signal.ITIMER_REAL, 0)
                return {'trace': [list(e) for e in _DL_EVENTS], 'exit': code,
                        'exc': type(exc).__name__ if exc is not None else None}
            if case['warm']:
                obs['warm'] = one(['run', '--continue'] + sel)
            if case['pre'] == 'ignored':
                dm = _open_db(case)
                dm.ignore(_Stub('pre'))
                dm.close()
            if case['pre'] == 'missing':
                os.unlink('missing_pre')
            cell['phase'] = 'B'
            argv = ['run'] + (['--continue'] if case['cont'] else [])
            if case['runner'] == 'thread':
                argv += ['-n', str(case['nproc']), '-P', 'thread']
            obs['run'] = one(argv + sel)
            try:
                dm = _open_db(case)
                late, dep = dl_names(case)
                obs['recorded'] = {n: any(dm._get(n, k) is not None for k in ('deps:', 'checker:', '_values_:', 'result:'))
                                   for n in ['f', 'pre', 'z'] + dep}
                dm.close()
            except Exception as e:  # noqa
                obs['db_exc'] = type(e).__name__
            if case['pre'] == 'missing':
                _write('missing_pre', 'sometimes missing\n')
            cell['phase'] = 'C'
            obs['next'] = one(['run', '--continue'] + sel)
        finally:
            if use_alarm:
                signal.setitimer(signal.ITIMER_REAL, 0)
                if old_handler is not None:
                    signal.signal(signal.SIGALRM, old_handler)
            sys.stdout, sys.stderr = old_out, old_err
            gc.collect()
    obs['stderr'] = out.getvalue()[-400:]
    return obs


def dl_monitors(case, obs):
    """the statement of C05 on the delayed slice: (a) once `pre` (or `f`) has a failure report / is reported ignored-
    hence-unmet, nothing depending on it starts: `pre` below `f`; the task(s) made by the creator delayed until `pre`
    was executed and `d` below `pre`; (b) a task with a failure report has no record and executes in the next run;
    (c) with --continue the independent task is executed and everything selected gets its report; (d) serial without
    --continue: nothing starts after the first failure report"""
    flags = {'C05_no_dependent_runs': True, 'C05_serial_stops': True, 'C05_continue_complete': True,
             'C05_not_recorded': True, 'C05_reexecuted': True}
    wit = {}
    late, dep = dl_names(case)
    below = {'f': ['pre'] + dep, 'pre': list(dep), 'late': ['d'] if case['dependent'] else []}
    for s_ in late[1:]:
        below[s_] = ['late'] + below['late']
    tr = obs['run']['trace']
    failed = []
    for i, e in enumerate(tr):
        if e[0] == 'failure':
            failed.append(e[1])
        elif e[0] == 'start':
            bad = [x for x in failed if e[1] in below.get(x, [])]
            if bad and flags['C05_no_dependent_runs']:
                flags['C05_no_dependent_runs'] = False
                wit['no_dependent_runs'] = {'started': e[1], 'at': i, 'after_failure_of': bad}
            if failed and case['runner'] == 'serial' and not case['cont'] and flags['C05_serial_stops']:
                flags['C05_serial_stops'] = False
                wit['serial_stops'] = {'started': e[1], 'at': i}
    ex = obs['run']['exit']
    if case['cont'] and ex is not None and 0 <= ex <= 2 and tr and tr[-1] == ['complete']:
        sel = case.get('sel')
        if (sel is None or 'z' in sel) and not any(e[0] == 'start' and e[1] == 'z' for e in tr):
            flags['C05_continue_complete'] = False
            wit['continue_complete'] = {'independent_task_not_executed': 'z'}
        if failed and ex == 0:
            flags['C05_continue_complete'] = False
            wit['continue_complete'] = {'exit_code_0_with_failure_reports': failed}
    rec = obs.get('recorded') or {}
    for x in failed:
        if rec.get(x):
            flags['C05_not_recorded'] = False
            wit['not_recorded'] = {'task': x, 'record_present_after_failure': True}
    ntr = (obs.get('next') or {}).get('trace', [])
    own = [x for x in failed if x in ('f', 'pre')]
    for x in own:
        if any(e[0] == 'skip_uptodate' and e[1] == x for e in ntr):
            flags['C05_reexecuted'] = False
            wit['reexecuted'] = {'task': x, 'next_run': 'skip_uptodate'}
    return flags, wit


def dl_ok(case, obs):
    w = obs.get('warm')
    return w is None or (w['exit'] == 0 and w['exc'] is None and not any(e[0] == 'failure' for e in w['trace']))


def dl_witness(case, obs, bad, flags, wit):
    return {'case': case, 'rendered': dl_render(case).split('\n'), 'failed_monitors': bad, 'python_monitors': flags,
            'detail': wit, 'trace': obs['run']['trace'], 'exit': obs['run']['exit'], 'exc': obs['run']['exc'],
            'recorded_after_run': obs.get('recorded'), 'next_run': obs.get('next'), 'warm_up': obs.get('warm'),
            'delayed_slice': True}


def dl_shrink(case, first):
    """greedy: drop features while the same monitor stays false"""
    cur = dict(case)
    for k, v in (('warm', False), ('dependent', None), ('sel', None), ('late_first', False), ('runner', 'serial'),
                 ('subs', 1), ('backend', 'json')):
        if cur.get(k) == v:
            continue
        cand = dict(cur)
        cand[k] = v
        try:
            o = dl_run(cand)
            fl, _w = dl_monitors(cand, o)
            if dl_ok(cand, o) and not fl[first]:
                cur = cand
        except Exception:  # noqa
            pass
    return cur


def eval_delayed(batch):
    st = common.WorkerStats()
    common.use_repo()
    cases = [json.loads(json.dumps(c)) for c in batch.get('cases', [])]
    for seed in batch.get('gen', []):
        c = gen_delayed(random.Random(seed))
        c['seed'] = seed
        cases.append(c)
    shrinks = 0
    for c in cases:
        obs = dl_run(c)
        tr = obs['run']['trace']
        nt = any(e[0] == 'failure' for e in tr)
        st.case({'case': dl_render(c).split('\n')}, nt)
        st.traces += 1
        st.count('delayed_slice:monitors_only')
        st.count('delayed_slice:shape:%s' % c['shape'])
        st.count('delayed_slice:trigger_%s' % c['pre'])
        st.count('delayed_slice:%s%s' % (c['runner'], ':continue' if c['cont'] else ''))
        if any(e[0] == 'created' for e in tr):
            st.count('delayed_slice:creator_evaluated_in_failing_run')
        if any(e[0] == 'failure' and e[1] == 'late' for e in tr):
            st.count('delayed_slice:delayed_task_reported_unmet')
        if not dl_ok(c, obs):
            st.count('warmup_not_clean')
            continue
        flags, wit = dl_monitors(c, obs)
        bad = [k for k in flags if not flags[k]]
        if bad:
            small = c
            w0 = dl_witness(c, obs, bad, flags, wit)
            if _sig_delayed_group_subtasks(w0):
                # the open finding delayed-group-subtasks-run: reported as it is (no shrinking work spent on it)
                st.count('delayed_slice:open_finding_shape')
                st.violation(w0, 'monitor:' + ','.join(bad), '%s false on the implementation (delayed slice: %s)' % (bad, wit))
                continue
            if shrinks < 3:
                shrinks += 1
                small = dl_shrink(c, bad[0])
            o2 = dl_run(small)
            f2, w2 = dl_monitors(small, o2)
            b2 = [k for k in f2 if not f2[k]]
            w = dl_witness(small, o2, b2, f2, w2) if b2 else dl_witness(c, obs, bad, flags, wit)
            st.violation(w, 'monitor:' + ','.join(w['failed_monitors']),
                         '%s false on the implementation (delayed slice: %s)' % (w['failed_monitors'], w['detail']))
            st.count('violation_found')
    return st


def delayed_small_scope():
    out = []
    i = 0
    for shape in ('plain', 'group'):
        for pre, how in DL_PRE:
            for cont in (True, False):
                for runner in ('serial', 'thread'):
                    i += 1
                    out.append({'delayed': True, 'pre': pre, 'how': how, 'shape': shape, 'subs': 2,
                                'dependent': (None, 'task_dep', 'setup')[i % 3], 'late_first': i % 4 == 1,
                                'runner': runner, 'nproc': 1 + i % 2, 'cont': cont, 'warm': i % 5 == 0,
                                'backend': BACKENDS[i % 3], 'sel': None})
    return out


# ======================================================================================================
# plan
# ======================================================================================================

def small_scope_cases():
    """exhaustive small scope: a failing task `f`, a dependent `t` reached through each edge kind, directly or through
    an intermediate that is run / up-to-date, with an independent task; every failure placement; serial and 2 threads;
    with / without --continue"""
    out = []
    kinds = ('task_dep', 'setup', 'calc_dep', 'file', 'getargs', 'result_dep', 'delivered')
    placements = [('failed', 'return'), ('failed', 'object'), ('error', 'raise'), ('error', 'object'),
                  ('saveerr', 'return'), ('missing', 'return'),
                  ('failed', 'cmd:1:shell'), ('error', 'cmd:127:list'), ('failed', 'sig:KILL:list'),
                  ('failed', 'sig:TERM:shell'), ('failed', 'sig:SEGV:list')]
    for kind in kinds:
        for out_, how in placements:
            for mid in (None, 'run', 'utd'):
                ts = []
                f = runlib._new_task('f')
                if out_ == 'missing':
                    f['status'] = 'error'
                    f['file_dep'].append('missing_f')
                else:
                    f['outcome'], f['how'] = out_, how
                ts.append(f)
                below = 'f'
                if mid is not None:
                    m = runlib._new_task('m')
                    m['status'] = mid
                    m['task_dep'].append('f')
                    ts.append(m)
                    below = 'm'
                t = runlib._new_task('t')
                if kind in ('task_dep', 'setup', 'calc_dep', 'result_dep'):
                    t[kind].append(below)
                elif kind == 'file':
                    tgt = 'f_%s.out' % below
                    [x for x in ts if x['name'] == below][0]['targets'].append(tgt)
                    t['file_dep'].append(tgt)
                elif kind == 'getargs':
                    t['getargs'].append(['a0', below, 'v'])
                elif kind == 'delivered':
                    c = runlib._new_task('c')
                    c['calc_res'] = {'task_dep': [below], 'file_dep': [], 'calc_dep': []}
                    ts.append(c)
                    t['calc_dep'].append('c')
                if mid == 'utd' and kind in ('file', 'getargs'):
                    continue
                ts.append(t)
                ts.append(runlib._new_task('z'))
                out.append({'tasks': ts, 'sel': ['t', 'z'], 'cont': True, 'always': False})
    return out


def explore_cases():
    """thread cases run under EVERY completion order: a failing task next to independent / co-dependency tasks"""
    T = runlib._new_task

    def t(name, **kw):
        x = T(name)
        x.update(kw)
        return x
    out = []
    for out_, how in (('failed', 'return'), ('error', 'raise'), ('saveerr', 'return'), ('failed', 'sig:KILL:list'),
                      ('error', 'cmd:200:shell')):
        for cont in (True, False):
            for nproc in (2, 3):
                out.append({'tasks': [t('f', outcome=out_, how=how), t('g'), t('d', task_dep=['f', 'g']),
                                      t('e', task_dep=['g']), t('h', setup=['d'])],
                            'sel': ['h', 'e'], 'cont': cont, 'always': False, 'runner': 'thread', 'nproc': nproc,
                            'warm': cont, 'backend': BACKENDS[(nproc + len(out_)) % 3]})
                out.append({'tasks': [t('c'), t('f', outcome=out_, how=how), t('d', task_dep=['f'], calc_dep=['c']),
                                      t('g', calc_dep=['f']), t('z')],
                            'sel': ['d', 'g', 'z'], 'cont': cont, 'always': False, 'runner': 'thread', 'nproc': nproc,
                            'warm': not cont, 'backend': BACKENDS[(nproc + len(how)) % 3]})
    return out


def plan(ctx, scale=1.0):
    quick = ctx.tier == 'quick'
    n_serial = int((420 if quick else 7000) * ctx.boost * scale)
    n_thread = int((360 if quick else 6000) * ctx.boost * scale)
    n_proc = int((12 if quick else 180) * min(ctx.boost, 2) * scale)
    rng = ctx.rng
    gen = []
    for _ in range(n_serial):
        gen.append((rng.randrange(1 << 60), {'runner': 'serial'}))
    for _ in range(n_thread):
        gen.append((rng.randrange(1 << 60), {'runner': 'thread', 'gen_policy': True}))
    rng.shuffle(gen)
    size = 20 if quick else 50
    pool = [{'gen': gen[i:i + size], 'shrink_s': 10.0} for i in range(0, len(gen), size)]
    # small scope: every case under a sample (quick) / all (thorough) of backend x warm x runner x cont
    small = []
    combos = [(b, w, r, c) for b in BACKENDS for w in (True, False) for r in ('serial', 'thread') for c in (True, False)]
    for i, sc in enumerate(small_scope_cases()):
        picks = combos if not quick else [combos[(i * 5 + k * 7) % len(combos)] for k in range(3 if ctx.boost <= 1 else 6)]
        for b, w, r, c in picks:
            x = json.loads(json.dumps(sc))
            x.update({'backend': b, 'warm': w, 'runner': r, 'nproc': 2 if r == 'thread' else 0, 'cont': c,
                      'policy': {'kind': ('fifo', 'lifo', 'seeded')[i % 3], 'seed': i}})
            small.append(x)
    ctx.extra['exhaustive_small_scope'] = {
        'cases': len(small), 'shape': 'failing task -> (direct | run intermediate | up-to-date intermediate) -> dependent, '
        'edge kinds task_dep/setup/calc_dep/file/getargs/result_dep/delivered, 11 failure placements (python-action, file_dep, cmd-action exit status, cmd-action killed by signal), + independent task',
        'combos': 'backend x warm x serial/thread(2) x --continue: %s' % ('3 per case (rotating)' if quick else 'all 24')}
    pool += [{'cases': small[i:i + size], 'shrink_s': 6.0} for i in range(0, len(small), size)]
    ex = explore_cases()
    if quick and ctx.boost <= 1:
        ex = [c for i, c in enumerate(ex) if i % 3 == ctx.seed % 3]
    ctx.extra['exhaustive_small_scope']['thread_completion_orders'] = {
        'cases': len(ex), 'schedules': 'every completion order under eager dispatch, 2 and 3 workers (limit 48 per case)'}
    pool += [{'explore': ex[i:i + 3], 'limit': 48, 'shrink_s': 6.0} for i in range(0, len(ex), 3)]
    # round 6: delayed creators below a failing trigger (monitors only): the small scope + generated cases
    dl = delayed_small_scope()
    n_dl = int((48 if quick else 900) * ctx.boost * scale)
    dl_seeds = [rng.randrange(1 << 60) for _ in range(n_dl)]
    ctx.extra['exhaustive_small_scope']['delayed_slice'] = {
        'cases': len(dl), 'shape': 'trigger of a delayed creator fails (9 placements) x plain/group x serial/thread x --continue',
        'generated': n_dl, 'level': 'monitors only (no trace acceptance: M1 has no delayed creators)'}
    pool += [{'delayed': True, 'cases': dl[i:i + 18]} for i in range(0, len(dl), 18)]
    pool += [{'delayed': True, 'gen': dl_seeds[i:i + 20]} for i in range(0, len(dl_seeds), 20)]
    procs = [(rng.randrange(1 << 60), {'runner': 'process', 'n_max': 6}) for _ in range(n_proc)]
    return pool, [{'gen': procs[i:i + 4], 'shrink_s': 8.0} for i in range(0, len(procs), 4)]


def corpus_batches():
    plain, main, explore, delayed = [], [], [], []
    for name, c in common.load_corpus(PROP):
        c['corpus'] = name
        if c.get('delayed'):
            delayed.append(c)
            continue
        variants = [c]
        if c.get('all_backends'):
            variants = []
            for b in BACKENDS:
                x = json.loads(json.dumps(c))
                x['backend'] = b
                variants.append(x)
        for x in variants:
            if x.get('runner') == 'process':
                main.append(x)
            elif x.get('runner') == 'thread':
                explore.append(x)       # thread seeds run under every completion order
                plain.append(x)         # ... and once under their own policy
            else:
                plain.append(x)
    pool = [{'cases': plain[i:i + 12], 'shrink_s': 10.0} for i in range(0, len(plain), 12)]
    pool += [{'explore': explore[i:i + 3], 'limit': 40, 'shrink_s': 6.0} for i in range(0, len(explore), 3)]
    if delayed:
        pool.append({'delayed': True, 'cases': delayed})
    return pool, ([{'cases': main, 'shrink_s': 10.0}] if main else [])


def run(ctx, scale=1.0):
    cpool, cmain = corpus_batches()
    ctx.count('corpus', sum(len(b.get('cases', [])) + len(b.get('explore', [])) for b in cpool + cmain))
    pool, main = plan(ctx, scale)
    for st in common.pmap(eval_batch, cpool + pool):
        st.merge_into(ctx)
    if ctx.violations:
        ctx.count('process_batches_skipped_after_violation')
    else:
        for st in runlib.fork_map(eval_batch, cmain + main, procs=3):
            st.merge_into(ctx)


def search(ctx):
    ctx.rng.seed(ctx.seed * 1000003 + 7919)
    run(ctx, scale=2.0 if ctx.time_left() > 0.5 * (ctx.budget_s or 30) else 0.7)


def replay(ctx, data):
    w = data.get('witness') or {}
    case = w.get('case')
    if not case:
        print('nothing to replay (no failing input was found): %s' % data.get('note'))
        for r in data.get('no_longer_checks', [])[:5]:
            print(' -', r.get('kind'), ':', str(r.get('note'))[:400])
        return False
    if case.get('delayed'):
        print(dl_render(case))
        obs = dl_run(case)
        print('warm-up run   :', obs.get('warm'))
        print('failing run   : exit=%s exc=%s %s' % (obs['run']['exit'], obs['run']['exc'], obs['run']['trace']))
        print('records after it:', obs.get('recorded'))
        print('next run      :', obs.get('next'))
        flags, wit = dl_monitors(case, obs)
        print('python monitors (delayed slice, monitors only):', flags)
        bad = [k for k in flags if not flags[k]]
        if bad:
            print('FAILED monitors:', bad, wit)
        return not bad
    case = prepare(json.loads(json.dumps(case)))
    print(render(case))
    obs = run_phases(case)
    print('warm-up run   :', obs.get('warm'))
    print('run B exit=%s err=%s aborted_by=%s' % (obs['exit'], obs['err'], obs.get('aborted')))
    print('run B trace   :', runlib.render_trace(case, obs['trace']))
    if obs.get('stderr'):
        print('stderr:', obs['stderr'][-400:])
    print('records after B (per task):', obs.get('recorded'))
    nxt = obs.get('next') or {}
    print('next run      : exit=%s %s' % (nxt.get('exit'), runlib.render_trace(case, nxt.get('trace', []))))
    ans = ask_model([(case, obs)])[0]
    lean = None if 'error' in ans else lean_flags(ans)
    bad, py, wit = failing_keys(case, obs, lean)
    print('python monitors:', py)
    print('lean monitors  :', lean if lean is not None else ans)
    if bad:
        print('FAILED monitors:', bad, wit)
        return False
    if lean is not None:
        print('model accepts the trace:', ans.get('accepted'), '' if ans.get('accepted') else
              '(matched %s, model could emit %s)' % (ans.get('matched'), ans.get('expected')))
        if data.get('failed') == 'correspondence' and not ans.get('accepted') and not ans.get('skipped') \
                and not obs.get('aborted'):
            return False
    return True
