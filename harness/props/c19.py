"""C19 -- what is reported is what happened (reports and exit code)   (model M1 + reporter.py, DESIGN §5 C19)

(T) lean/DoitModel/Props/C19.lean over Model/Run.lean + Model/Report.lean: exit code as a function of the multiset of
    failure kinds (order independent), one final report per task consistent with run_status and preceded by execute_task
    iff started, MReporter forwarding (FIFO per producer), the JSON reporter's task list.
(K) the real doit runs generated DAG cases (harness/runlib.py) with EVERY BUILT-IN REPORTER (console, executed-only,
    zero, error-only, json) and every runner (serial / thread under the deterministic scheduler / process).  The
    built-in reporter class is used as it is, through a recording subclass ("tee": each callback is written to the
    recorder and then handed to the real method; the real reporter writes to a private stream).  Compared:
      * the callback + action trace must be accepted by the Lean run model (runlib.ask_model, as C01/C02);
      * the real reporter's output, parsed (console lines `.  t` / `-- t` / `!! t` / failure headers / complete_run
        sections; the JSON document's task list) must equal what the Lean reporter model (Model/Report.lean: render,
        jsonOf) produces for the same callback stream;
    a difference is a divergence.
(P) the property statement on the implementation's behaviour, evaluated by the Lean driver (Driver/P19.lean) with a
    Python cross-check for the simple parts:
      C19_report_order   every final report is the first one of its task, after get_status; execute_task at most once,
                         before the final report, and before the action's start unless forwarded through MReporter;
                         success / failed / error reports only for tasks whose actions ended and were announced by
                         execute_task; skip / unmet reports only for tasks never started
      C19_exec_iff_start execute_task reported iff the actions were started (completed runs)
      C19_truth          the final report is the true one: compared with the oracle of the case (what get_status says,
                         ignore marks, what the action does) and with the failures / ignores of its dependencies
      C19_end_reported   a task whose actions ended gets a final report (completed runs)
      C19_exit           exit code = 3 iff the command ended with an error before/outside task execution, else
                         0 / 1 / 2 as the function exitSpec of the failure kinds reported
      C19_json           -r json: the output is a single valid JSON document {tasks, out, err}, nothing else on
                         stdout / stderr, each task with a final report listed once with that result; the task list
                         equals what the bookkeeping model (jsonOf) yields for the callbacks that really happened
                         also (json): complete_run raising in an otherwise normal run (e.g. an output stream that cannot
                         encode a character) is a violation; whatever happens, complete_run gives sys.stdout / sys.stderr
                         back (stream identity is checked at its end), and a serial run that exits 3 has put a
                         diagnostic on the process' stderr
      C19_output         console family: the lines the real reporter wrote are exactly the lines it has to write
                         (Lean `render`) for the callbacks that really happened: one `.  t` per announced task with
                         actions, one `-- t` / `!! t` per skipped task (console), one failure header per failure, the
                         complete_run sections of executed failed tasks; nothing for the zero reporter
      C19_success_means_all_processed   exit code 0/1/2 of a run not stopped by a reported failure: every member of
                         the closure of the selection has its final report (an exception that cuts the run short -- an
                         uptodate callable raising, a cycle found while dispatching, KeyboardInterrupt / SystemExit from
                         an action -- must show in the exit code: 3, or the exception propagates)
      C19_text           (wave 5) character-exact: what the real ConsoleReporter / ExecutedOnlyReporter / ZeroReporter /
                         ErrorOnlyReporter wrote to outstream (and, driven directly, to sys.stderr) equals the text of
                         Model/ReportText.lean for the reporter calls that really happened -- (a) the classes driven
                         directly with generated call sequences (harness/c19text.py: real Task / TaskFailed / TaskError /
                         UnmetDependency ... objects, names with a leading / inner underscore, tasks without actions,
                         custom titles, report=False, two failures of one task, runtime errors, complete_run anywhere,
                         failure_verbosity 0/1/2 x task verbosity 0/1/2); (b) every end-to-end run with a console-family
                         reporter (the tee records the calls with name / title / bool(actions) and, at complete_run,
                         executed / verbosity / captured out+err of the failed tasks).  Plus `console_decode` evaluated on
                         the real text: the `.  ` / `-- ` / `!! ` lines read back give exactly what happened.
case-format extensions of C19 (on top of runlib's): case['verbosity'] (DOIT_CONFIG verbosity), task['c19'] =
    {utd_raises, base_exc, prints, verbosity} (see _wrap_task_dict); such cases are outside the run model M1 when an
    exception is planted: the base acceptance is skipped for them (counted), every monitor still applies.
request to the driver: {"model":"c19", <fields of runlib.expand(case)>, "reporter": kind, "trace": full trace,
    "exit": int, "err": ""|"cyclic"|..., "doc": [[task id, result, timed]] (json only)}
"""
import io
import json
import os
import random
import re
import sys
import time

import common
import runlib
import c19text

PROP = 'C19'
KINDS = ['console', 'executed-only', 'zero', 'error-only', 'json']
KEYS = ['C19_report_order', 'C19_exec_iff_start', 'C19_truth', 'C19_end_reported', 'C19_exit', 'C19_json',
        'C19_success_means_all_processed']
OUT_KEY = 'C19_output'
TEXT_KEY = 'C19_text'

META = {
    'property': PROP,
    'lean_props': ['DoitModel.Props.C19'],
    'level': 'proof',
    'budget': {'quick': 30, 'thorough': 420},
    'anchors': ['doit/runner.py::Runner._handle_task_error', 'doit/runner.py::Runner.select_task',
                'doit/runner.py::Runner.execute_task', 'doit/runner.py::Runner.process_task_result',
                'doit/runner.py::Runner.run_tasks', 'doit/runner.py::Runner.finish', 'doit/runner.py::Runner.run_all',
                'doit/runner.py::MReporter', 'doit/runner.py::MRunner.run_tasks',
                'doit/runner.py::MRunner._process_result', 'doit/runner.py::MRunner.execute_task_subprocess',
                'doit/reporter.py::ConsoleReporter', 'doit/reporter.py::ExecutedOnlyReporter',
                'doit/reporter.py::ZeroReporter', 'doit/reporter.py::ErrorOnlyReporter',
                'doit/reporter.py::TaskResult', 'doit/reporter.py::JsonReporter',
                'doit/doit_cmd.py::DoitMain.run', 'doit/cmd_run.py::Run._execute'],
    'technique': 'Lean 4 invariant proofs over the small-step run model (all schedules) extended with the final_result '
                 'fold, the reporter state machines (console family, JsonReporter bookkeeping dict) and MReporter '
                 'forwarding; differential correspondence of every built-in reporter\'s real output and of the callback '
                 'stream against the model; Lean monitors of the full statement on every implementation trace; '
                 'wave 5: the four text reporter classes as pure functions call sequence -> lines (Model/ReportText.lean), '
                 'theorems for all call sequences, character-exact differential test against the real classes',
    'design_ref': '§5 C19, §4 M1, §6.3, §6.4',
    'level_text': 'Machine-checked: in every reachable state of the run model (serial, thread, process; any schedule) '
                  'final_result equals a function of the multiset of failure kinds reported (0 none, 1 only TaskFailed, '
                  '2 some error incl. unmet dependency), exit 3 exactly when an exception leaves run_all; every task has '
                  'no final report while unfinished and exactly the one matching its run_status when finished; the '
                  'callback stream satisfies the report discipline (get_status first, execute_task at most once, before '
                  'the final report, present iff the actions were started) - for the process runner this is proved for '
                  'MRunner + MReporter as one transition system with the real FIFO result queue (forwarded execute_task '
                  'reports are never lost, duplicated or overtaken by the result of their task); for every disciplined '
                  'stream the JsonReporter bookkeeping never raises and lists each processed task exactly once with '
                  'its result.  Text reporters (all call sequences, all task tables): the progress lines of ConsoleReporter decode to exactly '
                  'the sequence of visible (task, executed | up-to-date | ignored); self.failures / the header lines / the '
                  'complete_run blocks list exactly the failures with report=True, each once, in order; ExecutedOnlyReporter = '
                  'ConsoleReporter minus the skip lines; ZeroReporter writes nothing to outstream, ErrorOnlyReporter exactly one '
                  'header+message per reported failure.  Tied to doit on every run: real runs with all five built-in reporters x three runners, '
                  'real output parsed and compared with the Lean reporter models, the statement evaluated on every trace.',
    'level_note': 'Trusted: Lean kernel; doitdrv; the Python harness (runlib generator / scheduler / token controller, '
                  'the tee subclass of the built-in reporters, the output parsers).  json.dump validity and message '
                  'bodies / tracebacks are not modelled (the document is parsed, bodies are skipped).  Monitor: Lean '
                  '(driver) with a Python cross-check of exit code and report counts; the comparison of the real reporter '
                  'output with the Lean rendering of the observed callbacks (C19_output, C19_json) is done in Python on '
                  'the driver\'s answer.  "The report is the true one": the part decided by the oracle of the case is '
                  'proved (C19_report_true_to_oracle); the dependency part (an unmet / ignored-through-dependency report really '
                  'has a failed / ignored dependency) is monitored on every trace (C19_truth) but not proved.  The forwarding '
                  'system FSys is proved, not replayed against process traces.',
    'rule': 'runlib random DAGs of 3-8 tasks (all edge kinds, groups), oracle per task (run/up-to-date/error, ignored, '
            'ok/failed/error, how the action fails), --continue on/off, reporter drawn from the five built-ins, runner '
            'serial | thread k=1..4 x schedule policy | process k=2,3; 1 in 12 graphs may be cyclic; 8% of the cases plant an '
            'exception that leaves run_tasks (uptodate callable raising; KeyboardInterrupt / SystemExit from an action, '
            'serial); 35% of the json cases have printing actions at verbosity 2 (global or per task); 30% of the json cases write to an '
            'output stream that only encodes ascii / latin-1 while actions print non-ASCII text; 30% of the tasks that fail '
            'by return value fail through a cmd-action killed by SIGKILL / SIGTERM instead; wave 4: --failure-verbosity 0/1/2 (30%), -v N on the command line (20%), DOIT_CONFIG / per-task verbosity also for the '
            'console family, custom title / title_with_actions / title returning a number (15% of the tasks), --outfile (15%), '
            'reporter through a [REPORTER] plugin section + -r (12%), `actions` rejected only at execution time (4%), values '
            'the DB codec cannot encode (3%), runlib calc_first tasks (p_calc_then_fail 0.15); exhaustive tier: every outcome assignment of '
            'small fixed graphs x --continue x reporter, and every completion order of small thread cases; '
            'r6: unpicklable values (lock / generator) returned by an extra first action of a failing task (60% of the process-runner '
            'cases with a failing task, 8% otherwise); -r json serial: teardown callables that print at verbosity 2 or fail (50% of '
            'the cases, 70% of their teardown tasks); wave 5 (text_unit:*): 3000 (quick) generated reporter-call sequences of 1-15 calls over 1-5 tasks drawn from names '
            'with leading / inner / trailing underscores, 25% without actions, 20% not executed, verbosity 0/1/2, custom / empty / '
            'numeric titles, captured out/err, every BaseFail subclass with report on/off and with a caught exception, runtime and '
            'cleanup errors, complete_run anywhere, reporter class and failure_verbosity drawn uniformly; corpus/C19text; '
            'non-trivial = something got a final report and the case has an edge or a non-success outcome; distinct = '
            'distinct rendered case + reporter + schedule',
    'assumptions': ['end-to-end cases: task names do not start with "_" (names with underscores, hidden tasks and call '
                    'sequences the runner never produces are covered by the directly driven reporter classes, text_unit:*)',
                    'text model: what complete_run reads from a task (executed, verbosity, captured out/err) is one value '
                    'per task (the value at complete_run); task names are non-empty'],
    'trusted': ['deterministic thread scheduler and token controller of harness/runlib.py',
                'tee subclass of the built-in reporter classes (records, then calls the real method)',
                'parsers of the console lines and of the JSON document',
                'harness/c19text.py: construction of the real Task / BaseFail objects from a generated call sequence, '
                'CallLog (what the tee records of each call for the text model)'],
    'models': ['M1'],
}



def _only(witness, allowed):
    failed = set(witness.get('failed_monitors') or [])
    return bool(failed) and failed <= set(allowed)


def sig_json_started_without_result(witness):
    """SIGNATURE of the open finding json-started-without-result: json reporter; nothing planted that leaves run_tasks;
    the run ended (reported runtime error from a lazily invalid `actions`, or a dependency cycle found while a task was
    in flight) with a task that was announced (execute_task) but has no final report, and JsonReporter.complete_run
    raised the TypeError of `_finished_on - _started_on` (it is in the problems list or in the traceback on stderr);
    the only failed monitors are C19_json and C19_exit"""
    if witness.get('reporter') != 'json' or not _only(witness, ['C19_json', 'C19_exit']) or witness.get('aborted'):
        return False
    probs = ' '.join((witness.get('detail') or {}).get('json_problems') or [])
    if 'complete_run raised TypeError' not in probs and '_finished_on - self._started_on' not in (witness.get('stderr') or ''):
        return False
    if witness.get('exit') != 3:
        return False
    tr = witness.get('trace') or []
    announced = set(e[1] for e in tr if e[0] == 'execute')
    reported = set(e[1] for e in tr if e[0] in runlib.TERMINAL)
    return bool(announced - reported)


SIGNATURES = {}

_LAST = {}          # output of the real reporter of the run in progress (same process as DoitMain.run)

FAILCLS = {'TaskFailed': 'failed', 'TaskError': 'error', 'UnmetDependency': 'unmet', 'DependencyError': 'deperr',
           'SetupError': 'error'}


# ======================================================================================================
# the tee reporter
# ======================================================================================================

_TEE = {}
PLUGIN_MOD = 'c19_reporter_plugin'
OUTFILE = 'report.out'
_CASE_OPTS = {}      # options of the case being run that the tee needs (out_encoding)


def tee_class(kind):
    """subclass of the built-in reporter `kind` that records every callback (like runlib.RecReporter) and then runs
    the real method; the real reporter writes to a private StringIO"""
    if kind in _TEE:
        return _TEE[kind]
    common.use_repo()
    from doit import reporter as rp
    base = {'console': rp.ConsoleReporter, 'executed-only': rp.ExecutedOnlyReporter, 'zero': rp.ZeroReporter,
            'error-only': rp.ErrorOnlyReporter, 'json': rp.JsonReporter}[kind]

    def rec():
        return runlib._REC

    class Tee(base):
        desc = 'tee of %s (verification harness)' % kind

        def __init__(self, outstream, options):
            enc = _CASE_OPTS.get('out_encoding')
            if enc:
                # a stdout whose encoding cannot represent every character (LANG=C, PYTHONIOENCODING=ascii, latin-1 console)
                self._v_bytes = io.BytesIO()
                self._v_buf = io.TextIOWrapper(self._v_bytes, encoding=enc, errors='strict', newline='')
            elif _CASE_OPTS.get('outfile'):
                # --outfile: the stream doit opened for the file named on the command line is used as it is
                self._v_bytes = None
                self._v_buf = outstream
                _LAST['outstream_name'] = getattr(outstream, 'name', None)
            else:
                self._v_bytes = None
                self._v_buf = io.StringIO()
            self._v_enc = enc
            _LAST.clear()
            _LAST['kind'] = kind
            _LAST['pre_streams'] = (sys.stdout, sys.stderr)
            self._v_log = c19text.CallLog()      # wave 5: the calls with what the text reporters read from the task
            base.__init__(self, self._v_buf, options)

        def _v_text(self):
            if _CASE_OPTS.get('outfile') and not _CASE_OPTS.get('out_encoding'):
                try:
                    self._v_buf.flush()
                    with open(_CASE_OPTS['outfile'], encoding='utf-8') as fh:
                        return fh.read()
                except Exception as ex:  # noqa
                    return '<<outfile not readable: %s>>' % type(ex).__name__
            if self._v_bytes is None:
                return self._v_buf.getvalue()
            try:
                self._v_buf.flush()
            except Exception:  # noqa
                pass
            return self._v_bytes.getvalue().decode(self._v_enc, 'replace')

        def initialize(self, tasks, selected_tasks):
            rec().ev(['initialize', [rec().tid(t) for t in selected_tasks]])
            if hasattr(base, 'initialize'):
                base.initialize(self, tasks, selected_tasks)

        def get_status(self, task):
            rec().ev(['get_status', rec().tid(task)])
            self._v_log.call('get_status', task)
            return base.get_status(self, task)

        def execute_task(self, task):
            rec().ev(['execute', rec().tid(task)])
            self._v_log.call('execute', task)
            return base.execute_task(self, task)

        def add_failure(self, task, fail):
            rec().ev(['failure', rec().tid(task), runlib._fail_kind(fail), type(fail).__name__])
            self._v_log.failure(task, fail)
            return base.add_failure(self, task, fail)

        def add_success(self, task):
            rec().ev(['success', rec().tid(task)])
            self._v_log.call('success', task)
            return base.add_success(self, task)

        def skip_uptodate(self, task):
            rec().ev(['skip_uptodate', rec().tid(task)])
            self._v_log.call('skip_uptodate', task)
            return base.skip_uptodate(self, task)

        def skip_ignore(self, task):
            rec().ev(['skip_ignore', rec().tid(task)])
            self._v_log.call('skip_ignore', task)
            return base.skip_ignore(self, task)

        def cleanup_error(self, exception):
            rec().ev(['cleanup_error'])
            try:
                self._v_log.msg('cleanup_error', exception.get_msg())
            except Exception:  # noqa
                self._v_log.bad = 'cleanup message'
            return base.cleanup_error(self, exception)

        def runtime_error(self, msg):
            rec().ev(['runtime_error', str(msg)[:200]])
            self._v_log.msg('runtime_error', msg)
            return base.runtime_error(self, msg)

        def teardown_task(self, task):
            rec().ev(['teardown', rec().tid(task)])
            self._v_log.call('teardown', task)
            return base.teardown_task(self, task)

        def complete_run(self):
            rec().ev(['complete'])
            # complete_run is called from `finally: self.finish()`: an exception that is leaving run_all is visible here
            inflight = sys.exc_info()[0]
            _LAST['inflight'] = inflight.__name__ if inflight is not None else None
            if kind != 'json':
                self._v_log.complete(self)
            try:
                return base.complete_run(self)
            except BaseException as e:  # noqa
                _LAST['raised'] = type(e).__name__
                raise
            finally:
                _LAST['text'] = self._v_text()
                if kind != 'json':
                    _LAST['textlog'] = self._v_log.request(kind, getattr(self, 'failure_verbosity', 0))
                    _LAST['textlog_bad'] = self._v_log.bad
                pre = _LAST.pop('pre_streams', (None, None))
                # the reporter that redirects the process' streams (json) has to give them back, whatever happens
                _LAST['streams_restored'] = (sys.stdout is pre[0] and sys.stderr is pre[1])
                # whatever went to the process' stdout / stderr besides the reporter's own stream
                _LAST['stray_out'] = sys.stdout.getvalue() if hasattr(sys.stdout, 'getvalue') else ''
                _LAST['stray_err'] = sys.stderr.getvalue() if hasattr(sys.stderr, 'getvalue') else ''
    Tee.__name__ = 'Tee_' + kind.replace('-', '_')
    _TEE[kind] = Tee
    # reachable as a plugin: `[REPORTER] c19rep = c19_reporter_plugin:Tee_<kind>` in doit.cfg + `-r c19rep`
    mod = sys.modules.get(PLUGIN_MOD)
    if mod is None:
        import types
        mod = types.ModuleType(PLUGIN_MOD)
        sys.modules[PLUGIN_MOD] = mod
    setattr(mod, Tee.__name__, Tee)
    return Tee


class _Harness19Abort(RuntimeError):
    pass


def _extras(t):
    return t.get('c19') or {}


def _wrap_task_dict(d, t, n, rec):
    """C19's additions to the task dict runlib builds (case format extension, per task under the key 'c19'):
      utd_raises: True            the task's `uptodate` callable raises (an exception leaves run_tasks)
      base_exc: 'KeyboardInterrupt' | 'SystemExit'    the action raises it after its start mark
      prints: True | 'unicode'    the action writes to stdout and stderr (non-ASCII text for 'unicode') before doing what
                                  runlib's action does
      sigkill: 'KILL' | 'TERM'    (tasks whose outcome is 'failed') the failure is a cmd-action dying from that signal
      verbosity: 0|1|2            the task's own `verbosity`
      title: 'custom' | 'with_actions' | 'nonstr'    the task's `title` callable (a function of the task / doit.tools.
                                  title_with_actions / a function returning a number)
      lazy_bad: 'int' | 'tuple4'  `actions` holds an element doit rejects only when the action objects are created, i.e.
                                  inside the runner at execution time (InvalidTask -> runtime_error, run aborted, exit 2)
      unpicklable: 'lock' | 'gen' (tasks whose outcome is 'failed' / 'error') an extra FIRST action returns a dict holding a
                                  threading.Lock / a generator; the task's own action then fails (r6)
      td: 'prints' | 'fails'      (tasks with a teardown) one more teardown callable that writes TD-OUT-<n> / TD-ERR-<n> to
                                  stdout / stderr, or raises RuntimeError('TD-FAIL-<n>') -> reporter.cleanup_error (r6)
      bad_values: 'set' | 'bytes' (tasks whose outcome is 'saveerr') the actions succeed and return a dict with a value the DB
                                  codec cannot encode: save_success fails, the task is a DependencyError failure (model: saveErr)"""
    x = _extras(t)
    if not x or 'actions' not in d:
        return d
    if x.get('utd_raises'):
        def boom():
            raise _Harness19Abort('uptodate callable of task %d raises' % n)
        d['uptodate'] = list(d.get('uptodate') or []) + [boom]
    orig = d['actions'][0]
    if x.get('base_exc'):
        exc_name = x['base_exc']

        def act_abort():
            rec.ev(['start', n, rec.who()])
            if exc_name == 'SystemExit':
                raise SystemExit(7)
            raise KeyboardInterrupt()
        act_abort.__name__ = 'act_abort_%d' % n
        d['actions'] = [act_abort]
    elif x.get('prints'):
        extra = ' \u00e9\u00fc \u2713 \u65e5\u672c' if x['prints'] == 'unicode' else ''

        def act_print():
            sys.stdout.write('stdout of task %d%s\n' % (n, extra))
            sys.stderr.write('stderr of task %d%s\n' % (n, extra))
            return orig()
        act_print.__name__ = 'act_print_%d' % n
        d['actions'] = [act_print] + list(d['actions'][1:])
    if x.get('sigkill') and t['outcome'] == 'failed':
        # the task fails because its last action, a cmd-action, dies from a signal: the python-action (start / end marks,
        # targets) succeeds, then the shell that doit starts for the command kills itself (negative returncode)
        # A calc_dep task that delivers something is a runlib 'calc_first' task then (its first action returns the calc
        # values, which doit hands on although the task fails: Run.deliverF); otherwise the helper returns no calc values.
        if t.get('calc_first'):
            acts = runlib._make_actions(rec, n, dict(t, outcome='ok'))
        else:
            acts = [runlib._make_action(rec, n, dict(t, outcome='ok', calc_res=None))]
        d['actions'] = acts + ['kill -%s $$' % x['sigkill']]
    if x.get('bad_values') and t['outcome'] == 'saveerr' and not x.get('base_exc'):
        # one realisation of the run model's outcome `saveErr`: the actions succeed, save_success cannot encode the values
        d['actions'] = runlib._make_actions(rec, n, dict(t, outcome='ok'))
        inner = d['actions'][-1]
        bad = {1, 2} if x['bad_values'] == 'set' else b'x'

        def act_badvals():
            r = inner()
            if isinstance(r, dict):
                r = dict(r, unsaveable=bad)
            return r
        act_badvals.__name__ = 'act_badvals_%d' % n
        d['actions'] = list(d['actions'][:-1]) + [act_badvals]
    if x.get('unpicklable') and t['outcome'] in ('failed', 'error') and not x.get('base_exc') and not x.get('lazy_bad') \
            and not t.get('calc_first') and not t.get('calc_res'):
        # r6: a task of >= 2 actions; an EARLIER action returns values that cannot be pickled (a lock / a generator), a LATER
        # one fails.  What happened is the failure of that action (TaskFailed / TaskError) whatever the runner: the process
        # runner's "result not picklable" branch must keep it (`result.setdefault('failure', ...)`)
        what = x['unpicklable']

        def act_unpicklable():
            import threading
            return {'held': threading.Lock() if what == 'lock' else (i for i in ())}
        act_unpicklable.__name__ = 'act_unpicklable_%d' % n
        d['actions'] = [act_unpicklable] + list(d['actions'])
    if x.get('td') and t.get('teardown') and d.get('teardown') and not x.get('base_exc'):
        # r6: a teardown callable that writes to stdout / stderr (seen at task verbosity 2) or that fails
        td_kind = x['td']

        def td_extra():
            if td_kind == 'prints':
                sys.stdout.write('TD-OUT-%d\n' % n)
                sys.stderr.write('TD-ERR-%d\n' % n)
                return None
            raise RuntimeError('TD-FAIL-%d' % n)
        td_extra.__name__ = 'td_extra_%d' % n
        d['teardown'] = list(d['teardown']) + [td_extra]
    if x.get('lazy_bad'):
        d['actions'] = [3] if x['lazy_bad'] == 'int' else [(orig, [], {}, 1)]
    if x.get('verbosity') is not None:
        d['verbosity'] = x['verbosity']
    if x.get('title') == 'custom':
        d['title'] = lambda task: 'T<%s>' % task.name
    elif x.get('title') == 'nonstr':
        d['title'] = lambda task, n=n: 1000 + n
    elif x.get('title') == 'with_actions':
        from doit.tools import title_with_actions
        d['title'] = title_with_actions
    return d


def title_lookup(case):
    """text printed by a console reporter for a task -> task id (what `task.title()` must give for each task)"""
    exact, prefix = {}, {}
    for n, t in enumerate(case['tasks']):
        k = _extras(t).get('title') if t['kind'] != 'group' else None
        if k == 'custom':
            exact['T<%s>' % t['name']] = n
        elif k == 'nonstr':
            exact[str(1000 + n)] = n
        elif k == 'with_actions':
            prefix[t['name'] + ' => '] = n
        else:
            exact[t['name']] = n

    def look(text):
        if text in exact:
            return exact[text]
        for pre, n in prefix.items():
            if text.startswith(pre):
                return n
        return -1
    return look


def run_impl19(case, keep_raw=True):
    """runlib.run_impl with the built-in reporter case['reporter'] (tee'd) instead of runlib.RecReporter, and with
    C19's case-format extensions (per task: _wrap_task_dict; per case: 'verbosity' = DOIT_CONFIG verbosity)"""
    kind = case.get('reporter', 'console')
    orig = runlib.build_namespace

    def build(c, rec):
        ns = orig(c, rec)
        cls = tee_class(kind)
        if c.get('plugin'):
            # the reporter comes from a plugin section of doit.cfg and is chosen with `-r` on the command line
            del ns['DOIT_CONFIG']['reporter']
            with open('doit.cfg', 'w') as fh:
                fh.write('[REPORTER]\nc19rep = %s:%s\n' % (PLUGIN_MOD, cls.__name__))
        else:
            ns['DOIT_CONFIG']['reporter'] = cls
        if c.get('verbosity') is not None:
            ns['DOIT_CONFIG']['verbosity'] = c['verbosity']
        if any(_extras(t) for t in c['tasks']):
            gen = ns['task_gen']
            real = [(n, t) for n, t in enumerate(c['tasks']) if t['kind'] != 'group']
            groups_with_dict = [t for t in c['tasks'] if t['kind'] == 'group' and t['task_dep']]

            def task_gen():
                # runlib yields one dict per non-group task in definition order (+ one for a group with task_dep)
                by_name = {}
                for n, t in real:
                    nm = t['name']
                    by_name[(t['group'], nm.split(':', 1)[1]) if t['kind'] == 'sub' else (nm, None)] = (n, t)
                for d in gen():
                    key = (d.get('basename'), d.get('name'))
                    if 'actions' in d and key in by_name:
                        n, t = by_name[key]
                        d = _wrap_task_dict(d, t, n, rec)
                    yield d
            ns['task_gen'] = task_gen
        return ns
    orig_argv = runlib.argv_of

    def argv(c):
        a = orig_argv(c)
        extra = []
        if c.get('plugin'):
            extra += ['-r', 'c19rep']
        if c.get('fail_verb') is not None:
            extra += ['--failure-verbosity', str(c['fail_verb'])]
        if c.get('cli_verbosity') is not None:
            extra += ['-v', str(c['cli_verbosity'])]
        if c.get('outfile'):
            extra += ['-o', OUTFILE]
        return a[:1] + extra + a[1:]
    runlib.build_namespace = build
    runlib.argv_of = argv
    _LAST.clear()
    _CASE_OPTS.clear()
    if case.get('out_encoding'):
        _CASE_OPTS['out_encoding'] = case['out_encoding']
    if case.get('outfile'):
        _CASE_OPTS['outfile'] = OUTFILE
    try:
        obs = runlib.run_impl(case, keep_raw=keep_raw)
    finally:
        runlib.build_namespace = orig
        runlib.argv_of = orig_argv
    obs['out'] = {k: v for k, v in _LAST.items() if k != 'pre_streams'}
    obs['full'] = full_trace(obs.get('raw'), obs['trace'])
    # ground truth: did an exception leave run_tasks because of something the harness planted?
    ab = None
    for e in obs['full']:
        t = case['tasks'][e[1]] if len(e) > 1 and isinstance(e[1], int) and e[1] < len(case['tasks']) else None
        if t is None:
            continue
        if e[0] == 'get_status' and _extras(t).get('utd_raises') and \
                not any(x[0] in runlib.TERMINAL and x[1] == e[1] for x in obs['full']):
            # select_task got as far as dep_manager.get_status (the task was neither ignored nor unmet): the callable ran
            ab = 'uptodate callable of %s raised' % t['name']
            break
        if e[0] == 'start' and _extras(t).get('base_exc'):
            ab = 'action of %s raised %s' % (t['name'], _extras(t)['base_exc'])
            break
    obs['aborted'] = ab
    raw = obs.get('raw') or []
    obs['runtime_error'] = any(e[0] == 'runtime_error' for e in (raw or obs['trace']))
    return obs


def has_plant(case):
    """the case has something the run model M1 has no counterpart for (base acceptance is skipped and counted)"""
    return any(_extras(t).get('utd_raises') or _extras(t).get('base_exc') or _extras(t).get('lazy_bad')
               for t in case['tasks'])


def effective_exit(obs):
    """exit code as the shell sees it: a BaseException that escapes DoitMain.run ends the interpreter with a non-zero
    status (normalised to 3)"""
    if obs['exit'] is None and (obs.get('err') or '').startswith('crash:'):
        return 3
    if isinstance(obs['exit'], int) and obs['exit'] > 3:
        return 3          # SystemExit(7) of a planted action: any status that does not claim 0/1/2 is fine
    return obs['exit']


def full_trace(raw, canonical):
    """the canonical trace with the forwarded execute / teardown reports of the process runner kept (the recorder file
    is one total order: O_APPEND)"""
    if raw is None:
        return [e for e in canonical if e[0] not in ('runtime_error', 'cleanup_error')]
    return [e for e in runlib.canonical_trace(raw, 'serial') if e[0] not in ('runtime_error', 'cleanup_error')]


# ======================================================================================================
# parsing the real reporters' output
# ======================================================================================================

_RE_FAIL = re.compile(r'^(\w+) - taskid:(\S+)$')
_RE_FAIL_EO = re.compile(r'^taskid:(\S+) - (\w+)$')
_RE_SEC = re.compile(r'^(\S+) <(stderr|stdout)>:$')


def parse_console(text, ids, look=None):
    look = look or (lambda x: ids.get(x, -1))
    toks = []
    prev_sep = False
    for line in text.split('\n'):
        tok = None
        if line.startswith('.  '):
            tok = ['exec', look(line[3:])]
        elif line.startswith('-- '):
            tok = ['utd', look(line[3:])]
        elif line.startswith('!! '):
            tok = ['ign', look(line[3:])]
        elif line == '#' * 40:
            tok = ['sep']
        elif line == 'Execution aborted.':
            tok = ['aborted']
        else:
            m = _RE_FAIL.match(line)
            if m and m.group(1) in FAILCLS:
                tok = ['failAgain' if prev_sep else 'fail', ids.get(m.group(2), -1), FAILCLS[m.group(1)]]
            else:
                m = _RE_FAIL_EO.match(line)
                if m and m.group(2) in FAILCLS:
                    tok = ['fail', ids.get(m.group(1), -1), FAILCLS[m.group(2)]]
                else:
                    m = _RE_SEC.match(line)
                    if m:
                        tok = ['errSec' if m.group(2) == 'stderr' else 'outSec', ids.get(m.group(1), -1)]
        if tok is not None:
            toks.append(tok)
            prev_sep = tok == ['sep']
        elif line.strip():
            prev_sep = False
    return toks


def parse_json_doc(text, ids):
    """(doc, problem): doc = [[task id, result, timed]] or None"""
    try:
        data = json.loads(text)
    except ValueError as e:
        return None, 'reporter output is not a single JSON document (%s): %r' % (str(e)[:60], text[:80])
    if not isinstance(data, dict) or sorted(data.keys()) != ['err', 'out', 'tasks'] or not isinstance(data['tasks'], list):
        return None, 'JSON document has not the keys tasks/out/err'
    doc = []
    for t in data['tasks']:
        if not isinstance(t, dict) or 'name' not in t or 'result' not in t:
            return None, 'malformed task entry %r' % (t,)
        if (t.get('started') is None) != (t.get('elapsed') is None) and not (
                t.get('result') is None and t.get('started') is not None):
            # (a task that was started and never got a result may have a start time and no elapsed time)
            return None, 'task entry with half timing information %r' % (t,)
        doc.append([ids.get(t['name'], 999999), t['result'], t.get('started') is not None])
    return doc, None


# ======================================================================================================
# requests, python cross-check, judging
# ======================================================================================================

def c19_request(case, obs):
    m = case.get('model') or runlib.expand(case)
    req = {'model': 'c19', 'reporter': case.get('reporter', 'console')}
    req.update(m)
    if obs.get('selected') is not None and all(isinstance(x, int) for x in obs['selected']) \
            and obs['selected'] != m['sel']:
        req['sel'] = list(obs['selected'])
    req['trace'] = obs['full']
    ex = effective_exit(obs)
    req['exit'] = ex if isinstance(ex, int) and ex >= 0 else 99
    req['err'] = obs['err'] or ('crash:planted' if obs.get('aborted') else '')
    if 'doc' in obs:
        req['doc'] = obs['doc'] if obs['doc'] is not None else [[999999, None, False]]
    req['failVerb'] = case.get('fail_verb') or 0
    req['forceVerb'] = case.get('cli_verbosity') is not None
    req['globalVerb'] = case['cli_verbosity'] if case.get('cli_verbosity') is not None else (case.get('verbosity') or 0)
    req['taskVerb'] = [_extras(t).get('verbosity') for t in case['tasks']]
    req['runtimeErr'] = bool(obs.get('runtime_error'))
    req['lazyBad'] = [n for n, t in enumerate(case['tasks']) if _extras(t).get('lazy_bad')]
    return req


def exit_spec(kinds):
    if not kinds:
        return 0
    return 1 if all(k == 'failed' for k in kinds) else 2


def py_monitor(case, obs):
    """Python reference for the simple parts (cross-check of the Lean monitors)"""
    full = obs['full']
    m = case.get('model') or runlib.expand(case)
    res = {}
    kinds = [e[2] for e in full if e[0] == 'failure']
    exp = 3 if (obs['err'] or obs.get('aborted')) else 2 if obs.get('runtime_error') else exit_spec(kinds)
    res['C19_exit'] = effective_exit(obs) == exp
    if (obs['err'] or '').startswith('crash:') and not obs.get('aborted') and not obs.get('err_reporter'):
        # exit 3 through doit's catch-all (a traceback) although nothing was planted that may leave run_tasks: an internal
        # error, not "an error before execution starts"
        res['C19_exit'] = False
    ok = True
    seen_status, seen_exec, seen_term, started = set(), set(), set(), set()
    for e in full:
        k = e[0]
        if k == 'get_status':
            ok = ok and e[1] not in seen_status and e[1] not in seen_exec and e[1] not in seen_term and e[1] not in started
            seen_status.add(e[1])
        elif k == 'execute':
            ok = ok and e[1] in seen_status and e[1] not in seen_exec and e[1] not in seen_term
            seen_exec.add(e[1])
        elif k == 'start':
            ok = ok and (case['runner'] == 'process' or e[1] in seen_exec)
            started.add(e[1])
        elif k in runlib.TERMINAL:
            ok = ok and e[1] in seen_status and e[1] not in seen_term
            if k == 'success' or (k == 'failure' and e[2] in ('failed', 'error')):
                ok = ok and e[1] in seen_exec
            if k in ('skip_uptodate', 'skip_ignore') or (k == 'failure' and e[2] == 'unmet'):
                ok = ok and e[1] not in seen_exec and e[1] not in started
            seen_term.add(e[1])
    res['C19_report_order_counts'] = ok
    complete = bool(full) and full[-1] == ['complete']
    # (a run aborted by a reported runtime error may leave a task announced whose actions could not even be created; a
    #  run aborted by an exception that leaves run_tasks -- planted: obs['aborted'] -- may leave a task in flight in
    #  another worker process whose forwarded `execute` report was never consumed by the main process.  The statement is
    #  about tasks that got their final report: only tasks WITHOUT one are exempted.)
    res['C19_exec_iff_start'] = (not complete) or all(
        m['noAct'][t] or ((t in seen_exec) == (t in started))
        or ((obs.get('runtime_error') or obs.get('aborted')) and t not in seen_term) for t in range(m['n']))
    return res, {'expected_exit': exp, 'failure_kinds': kinds}


def observe(case, keep_raw=True):
    """run the implementation and digest the reporter output"""
    obs = run_impl19(case, keep_raw=keep_raw)
    if obs['err'] is None and obs['exit'] == 3 and not obs.get('aborted'):
        # exit 3 without a recognisable message on the captured stderr: with the thread runner the "ERROR: Cyclic ..."
        # line can land in the stderr Writer of a python-action that is still in flight (F-C17a).  The graph itself says
        # whether a dependency cycle exists.
        m = case.get('model') or runlib.expand(case)
        if not runlib.is_acyclic(runlib.dynamic_edges(runlib._all_deliver(m, case))):
            obs['err'] = 'cyclic'
            obs['err_from_graph'] = True
    ids = runlib.task_index(case)
    out = obs['out']
    kind = case.get('reporter', 'console')
    text = out.get('text')
    obs['problems'] = []
    if kind == 'json':
        # the run ended with an error outside task execution (the JSON document is not promised then): something the
        # harness planted, or an exception was already leaving run_all when complete_run was called, or the run never
        # got as far as complete_run.  An exception raised BY complete_run in an otherwise normal run is not that.
        crashed = out.get('raised')
        outside = bool(obs.get('aborted') or out.get('inflight') or (obs['err'] and not crashed))
        if crashed and not outside:
            obs['problems'].append('JsonReporter.complete_run raised %s' % crashed)
            if (obs['err'] or '').startswith('crash:'):
                obs['err_reporter'] = obs['err']
                obs['err'] = None          # for the exit-code clause: nothing but the reporter went wrong
        if text is None:
            if not outside:
                obs['problems'].append('the JSON reporter never completed (no document)')
                obs['doc'] = None
        else:
            doc, prob = parse_json_doc(text, ids)
            if doc is not None or not outside:
                obs['doc'] = doc
            if prob and not outside:
                obs['problems'].append(prob)
            if not outside and not crashed and (out.get('stray_out') or out.get('stray_err')):
                obs['problems'].append('output besides the JSON document: stdout %r stderr %r'
                                       % (out.get('stray_out', '')[:80], out.get('stray_err', '')[:80]))
        if not outside and not crashed:
            # r6: teardown actions run BEFORE the report is completed: what they print (verbosity 2) and their failures
            # (cleanup_error) are in the document, and nothing follows the document on the process' stdout
            if (obs.get('stdout_end') or '').strip():
                obs['problems'].append('output on the process\' stdout besides / after the JSON document: %r'
                                       % obs['stdout_end'][:80])
            tds = [e[1] for e in obs['full'] if e[0] == 'teardown']
            for n in tds:
                t = case['tasks'][n] if isinstance(n, int) and n < len(case['tasks']) else {}
                td = _extras(t).get('td')
                if td == 'fails' and text is not None and ('TD-FAIL-%d' % n) not in text:
                    obs['problems'].append('the failure of the teardown of %s (cleanup_error) is not in the JSON document'
                                           % t.get('name'))
                if td == 'prints' and text is not None and ('TD-OUT-%d' % n) not in text and \
                        _extras(t).get('verbosity') == 2 and case.get('cli_verbosity') is None:
                    obs['problems'].append('what the teardown of %s printed is not in the JSON document' % t.get('name'))
        if out.get('streams_restored') is False:
            obs['problems'].append('JsonReporter.complete_run left sys.stdout / sys.stderr redirected to its buffers'
                                   + (' (it raised %s)' % crashed if crashed else ''))
        if case['runner'] == 'serial' and obs['exit'] == 3 and not obs.get('stderr', '').strip():
            obs['problems'].append('exit code 3 but no diagnostic reached the process\' stderr')
    else:
        obs['tokens'] = parse_console(text or '', ids, title_lookup(case))
    return obs


def _sorted_doc(doc):
    return sorted(doc, key=lambda x: (x[0], str(x[1]), x[2]))


def failed_monitors(case, obs, ans):
    """names of the monitors that are false for this observation (Lean monitors, Python cross-check, and the real
    reporter output compared with what the reporter has to print for the callbacks that really happened)"""
    kind = case.get('reporter', 'console')
    py, _ = py_monitor(case, obs)
    lean = (ans.get('monitor') or {}) if ans and 'error' not in ans else None
    failed = [k for k in KEYS if lean is not None and not lean.get(k, True)]
    if obs.get('aborted') and py['C19_exec_iff_start'] and 'C19_exec_iff_start' in failed:
        # a run aborted by a planted exception is outside the run model: the Lean monitor knows no such ending and owes
        # `execute` to every started task; the Python monitor applies the clause to the tasks that got a final report
        # (the in-flight task of another worker process at the moment of the abort has none)
        failed.remove('C19_exec_iff_start')
    if not py['C19_exit'] and 'C19_exit' not in failed:
        failed.append('C19_exit')
    if not py['C19_exec_iff_start'] and 'C19_exec_iff_start' not in failed:
        failed.append('C19_exec_iff_start')
    if not py['C19_report_order_counts'] and 'C19_report_order' not in failed:
        failed.append('C19_report_order')
    if kind == 'json':
        bad = bool(obs.get('problems'))
        if lean is not None and obs.get('doc') is not None and ans.get('json') != 'raises' and (
                not isinstance(ans.get('json'), list) or _sorted_doc(ans['json']) != _sorted_doc(obs['doc'])):
            # ('raises': the model mirrors the present TaskResult.to_dict, which raises for a started task without a
            #  result -- open finding json-started-without-result; a tree that produces a document there is judged by the
            #  Lean predicate jsonOK alone)
            bad = True          # (the ORDER of the list is not part of the property: compared as correspondence only)
        if bad and 'C19_json' not in failed:
            failed.append('C19_json')
    elif lean is not None and obs['err'] is None and ans.get('render') != obs.get('tokens'):
        failed.append(OUT_KEY)
    if kind != 'json' and lean is not None and ans.get('text_out') is not None \
            and ans['text_out'] != (obs.get('out') or {}).get('text'):
        # wave 5: character-exact text of the real reporter vs Model/ReportText.lean on the calls it really got
        failed.append(TEXT_KEY)
    return failed


def judge(case, obs, ans, base_ans, st, shrink_left):
    """decision rules for one (case, observation); returns seconds spent shrinking"""
    st.traces += 1
    kind = case.get('reporter', 'console')
    py, pydetail = py_monitor(case, obs)
    lean = None
    if ans is None or 'error' in ans:
        st.count('driver_unavailable')
    else:
        lean = ans.get('monitor') or {}
        for k, v in (ans.get('hyp') or {}).items():
            st.count('hyp:%s=%s' % (k, v))
    failed = failed_monitors(case, obs, ans)
    if failed:
        first = failed[0]

        def still(c):
            c = dict(c)
            c['reporter'] = kind
            o = observe(c)
            a = ask19([(c, o)])[0]
            bad = failed_monitors(c, o, a)
            return first in bad
        small, used = case, 0.0
        if shrink_left > 0:
            t0 = time.time()
            base = dict(case)
            base.pop('schedule', None)
            small = runlib.shrink(base, still, max_tests=80, max_seconds=min(12.0, shrink_left))
            small = dict(small)
            small['reporter'] = kind
            used = time.time() - t0
        o2 = observe(small)
        a2 = ask19([(small, o2)])[0]
        w2 = make_witness(small, o2, a2)
        if first in w2['failed_monitors']:
            wit = w2
        else:
            wit = make_witness(case, obs, ans)
            wit['failed_monitors'] = sorted(set(wit['failed_monitors']) | set(failed))
        st.violation(wit, 'monitor:' + ','.join(wit['failed_monitors']),
                     '%s false on the implementation (%s reporter, %s runner): %s'
                     % (wit['failed_monitors'], kind, case['runner'], wit['detail']))
        st.count('violation_found')
        return used
    # ---- (K)
    if lean is not None:
        if py['C19_exit'] != lean.get('C19_exit', True):
            st.divergence(make_witness(case, obs, ans), 'python and Lean exit-code monitors disagree')
            return 0
        if kind == 'json' and obs.get('doc') is not None and ans.get('json') != 'raises' and ans.get('json') != obs['doc']:
            st.divergence(make_witness(case, obs, ans),
                          'correspondence JsonReporter: order of the real task list %s differs from the model\'s %s'
                          % (obs['doc'], ans.get('json')))
            return 0
    if has_plant(case):
        st.count('model:not_applicable(planted exception)')
    elif base_ans is not None and 'error' not in base_ans:
        if base_ans.get('skipped'):
            st.count('model_search_skipped')
        st.count('model:accepted' if base_ans.get('accepted') else 'model:rejected')
        if not base_ans.get('accepted') and not base_ans.get('skipped'):
            w = make_witness(case, obs, ans)
            w['matched'] = base_ans.get('matched')
            w['expected'] = base_ans.get('expected')
            st.divergence(w, 'correspondence M1: the run model cannot produce the callback trace observed with the %s '
                             'reporter; matched %s events, model could emit %s'
                          % (kind, base_ans.get('matched'), base_ans.get('expected')))
    return 0


def render19(case):
    lines = runlib.render(case).split('\n')
    for t in case['tasks']:
        if _extras(t):
            lines.append('   C19 extras %s: %s' % (t['name'], json.dumps(_extras(t), sort_keys=True)))
    if case.get('verbosity') is not None:
        lines.append('   DOIT_CONFIG verbosity = %s' % case['verbosity'])
    if case.get('out_encoding'):
        lines.append('   encoding of the reporter\'s output stream = %s' % case['out_encoding'])
    opts = ['%s=%s' % (k, case[k]) for k in ('fail_verb', 'cli_verbosity', 'outfile', 'plugin') if case.get(k) is not None]
    if opts:
        lines.append('   command line / config: ' + ' '.join(opts))
    return lines


def make_witness(case, obs, ans):
    lean = (ans or {}).get('monitor') if ans and 'error' not in ans else None
    py, det = py_monitor(case, obs)
    failed = failed_monitors(case, obs, ans)
    det = dict(det)
    det['exit'] = obs['exit']
    det['runtime_error'] = bool(obs.get('runtime_error'))
    if obs.get('problems'):
        det['json_problems'] = obs['problems']
    if ans and 'error' not in ans:
        for k in ('firstBadOrder', 'firstBadTruth', 'expectedExit'):
            det[k] = ans.get(k)
    return {'case': {k: v for k, v in case.items() if k != 'model'} | {'schedule': obs.get('schedule')},
            'reporter': case.get('reporter'),
            'rendered': render19(case), 'aborted': obs.get('aborted'), 'trace': obs['full'],
            'trace_text': runlib.render_trace(case, obs['full']),
            'exit': obs['exit'], 'err': obs['err'], 'stderr': obs.get('stderr', '')[-300:],
            'reporter_output': (obs['out'].get('text') or '')[:1500],
            'tokens': obs.get('tokens'), 'doc': obs.get('doc'),
            'model_render': (ans or {}).get('render'), 'model_json': (ans or {}).get('json'),
            'model_text': ((ans or {}).get('text_out') or '')[:1500] if (ans or {}).get('text_out') is not None else None,
            'failed_monitors': sorted(failed), 'python_monitors': py, 'lean_monitors': lean, 'detail': det}


def ask19(pairs):
    reqs = [c19_request(c, o) for c, o in pairs]
    if not reqs:
        return []
    try:
        answers = common.drv_batch(reqs)
    except Exception as ex:  # noqa
        return [{'error': 'driver failed: %s' % str(ex)[:200]} for _ in reqs]
    # wave 5: the exact text of the console-family reporters for the calls the real reporter got (Model/ReportText.lean)
    idx = [i for i, (c, o) in enumerate(pairs) if text_comparable(c, o) is True]
    try:
        tans = common.drv_batch([pairs[i][1]['out']['textlog'] for i in idx])
    except Exception as ex:  # noqa
        tans = [{'error': str(ex)[:100]} for _ in idx]
    for i, a in zip(idx, tans):
        if 'error' not in a and 'error' not in answers[i]:
            answers[i]['text_out'] = a['out']
            answers[i]['text_happened'] = a['happened']
            answers[i]['text_blocks'] = a['blocks']
    return answers


def text_comparable(case, obs):
    """True, or the reason why the exact-text comparison does not apply to this end-to-end observation"""
    out = obs.get('out') or {}
    if case.get('reporter', 'console') == 'json':
        return 'json'
    if not out.get('textlog'):
        return 'no complete_run'
    if out.get('textlog_bad'):
        return 'recorder: %s' % out['textlog_bad']
    if out.get('raised') or out.get('text') is None:
        return 'complete_run raised'
    if case.get('out_encoding'):
        return 'restricted output encoding'
    return True


def count19(st, case, obs):
    if case.get('reporter') != 'json':
        tc = text_comparable(case, obs)
        st.count('text_e2e:%s' % ('compared' if tc is True else 'skipped(%s)' % tc))
        if tc is True:
            st.count('text_e2e:chars', len(obs['out'].get('text') or ''))
    runlib.count_case(st, case, obs)
    st.count('reporter:%s' % case.get('reporter'))
    st.count('reporter:%s:%s' % (case.get('reporter'), case['runner']))
    kinds = sorted(set(e[2] for e in obs['full'] if e[0] == 'failure'))
    st.count('failure_kinds:%s' % ('+'.join(kinds) or 'none'))
    n_fail = sum(1 for e in obs['full'] if e[0] == 'failure')
    st.count('failures_per_run:%s' % (n_fail if n_fail < 3 else '3+'))
    if 'failed' in kinds and len(kinds) > 1:
        first = [e[2] for e in obs['full'] if e[0] == 'failure'][0]
        st.count('mixed_failures:first=%s' % ('failed' if first == 'failed' else 'error-kind'))
    for t in case['tasks']:
        for k, v in _extras(t).items():
            st.count('extra:%s=%s' % (k, v))
    if any(_extras(t).get('unpicklable') for t in case['tasks']):
        started = {e[1] for e in obs['full'] if e[0] == 'start'}
        hit = any(_extras(t).get('unpicklable') and n in started for n, t in enumerate(case['tasks']))
        st.count('r6:unpicklable_values_then_failing_action:%s:%s' % (case['runner'], 'executed' if hit else 'not-reached'))
    if case.get('verbosity') is not None:
        st.count('extra:global_verbosity=%s' % case['verbosity'])
    if case.get('out_encoding'):
        st.count('extra:out_encoding=%s' % case['out_encoding'])
    for k in ('fail_verb', 'cli_verbosity', 'outfile', 'plugin'):
        if case.get(k) is not None:
            st.count('opt:%s=%s' % (k, case[k]))
    if case.get('reporter') != 'json' and (case.get('verbosity') or case.get('cli_verbosity')
                                           or any(_extras(t).get('verbosity') for t in case['tasks'])):
        st.count('console_family:nonzero_verbosity')
    if obs.get('runtime_error'):
        st.count('runtime_error_reported')
    st.count('aborted:%s' % ('no' if not obs.get('aborted') else obs['aborted'].split(' of ')[0]))
    if case['runner'] == 'process':
        ex = [i for i, e in enumerate(obs['full']) if e[0] == 'execute']
        st.count('process:forwarded_execute', len(ex))


def nontrivial19(case, obs):
    m = case.get('model') or runlib.expand(case)
    has_edge = any(m['taskDep'][i] or m['setup'][i] or m['calcDep'][i] for i in range(m['n']))
    odd = any(t['outcome'] != 'ok' or t['status'] != 'run' or t['ignored'] for t in case['tasks'])
    return (has_edge or odd) and any(e[0] in runlib.TERMINAL for e in obs['full'])


def decorate(c, rng):
    """C19's additions to a generated case: planted exceptions (8%), loud actions under the JSON reporter (35% of the
    json cases)"""
    real = [t for t in c['tasks'] if t['kind'] != 'group']
    r = rng.random()
    if r < 0.05:
        rng.choice(real).setdefault('c19', {})['utd_raises'] = True
    elif r < 0.08 and c['runner'] == 'serial':
        t = rng.choice(real)
        t.setdefault('c19', {})['base_exc'] = rng.choice(['KeyboardInterrupt', 'SystemExit'])
    for t in real:
        if t['outcome'] == 'failed' and t.get('how', 'return') == 'return' and not _extras(t).get('base_exc') \
                and rng.random() < 0.3:
            t.setdefault('c19', {})['sigkill'] = rng.choice(['KILL', 'TERM'])
            if t.get('calc_res') is not None:
                t['calc_first'] = True
    # ---- wave 4: what the reporters print / where the reporter comes from / lazily invalid actions / unsaveable values
    if rng.random() < 0.3:
        c['fail_verb'] = rng.choice([0, 1, 2, 2])
    if rng.random() < 0.2:
        c['cli_verbosity'] = rng.choice([0, 1, 2])
    if c.get('reporter') != 'json' and rng.random() < 0.25:
        c['verbosity'] = rng.choice([1, 2])
    if rng.random() < 0.12:
        c['plugin'] = True
    for t in real:
        if rng.random() < 0.15:
            t.setdefault('c19', {})['title'] = rng.choice(['custom', 'with_actions', 'nonstr'])
        if c.get('reporter') != 'json' and rng.random() < 0.15:
            t.setdefault('c19', {})['verbosity'] = rng.choice([0, 1, 2])
    r2 = rng.random()
    if r < 0.08:
        pass
    elif r2 < 0.04:
        t = rng.choice(real)
        t.setdefault('c19', {})['lazy_bad'] = rng.choice(['int', 'tuple4'])
        if t['c19'].get('title') == 'with_actions':
            # (title_with_actions evaluates task.actions: the InvalidTask would then come out of the reporter's skip_* /
            #  execute_task line instead of the runner; kept out of the random stream, the Lean rendering does not model it)
            t['c19']['title'] = 'custom'
    elif r2 < 0.07:
        cand = [t for t in real if t['outcome'] == 'ok' and not _extras(t).get('base_exc')]
        if cand:
            t = rng.choice(cand)
            t['outcome'] = 'saveerr'
            t.setdefault('c19', {})['bad_values'] = rng.choice(['set', 'bytes'])
    if c.get('reporter') == 'json' and rng.random() < 0.3:
        c['out_encoding'] = rng.choice(['ascii', 'latin-1'])
        for t in real:
            if not _extras(t).get('base_exc') and rng.random() < 0.7:
                t.setdefault('c19', {})['prints'] = 'unicode'
    if not c.get('out_encoding') and rng.random() < 0.15:
        c['outfile'] = True
    if c.get('reporter') == 'json' and rng.random() < 0.35:
        if rng.random() < 0.5:
            c['verbosity'] = 2
        for t in real:
            if _extras(t).get('base_exc'):
                continue
            if rng.random() < 0.6:
                t.setdefault('c19', {}).setdefault('prints', True)
                if c.get('verbosity') is None or rng.random() < 0.3:
                    t['c19']['verbosity'] = rng.choice([2, 2, 1])
    # r6 (drawn last: the stream of the earlier decorations is unchanged): unpicklable values, then a failing action
    cand = [t for t in real if t['outcome'] in ('failed', 'error') and not _extras(t).get('base_exc')
            and not _extras(t).get('lazy_bad') and not _extras(t).get('sigkill')
            and not t.get('calc_first') and not t.get('calc_res')]
    if cand and rng.random() < (0.6 if c['runner'] == 'process' else 0.08):
        for t in cand:
            if rng.random() < 0.7:
                t.setdefault('c19', {})['unpicklable'] = rng.choice(['lock', 'gen'])
    # r6: -r json, serial runner: teardown callables that print (task verbosity 2) or fail -- what they write / their failure
    # belongs INTO the single JSON document (out / err), nothing may follow it on the process' stdout
    if c.get('reporter') == 'json' and c['runner'] == 'serial' and not c.get('out_encoding') and rng.random() < 0.5:
        for t in real:
            if t.get('teardown') and not _extras(t).get('base_exc') and not _extras(t).get('lazy_bad') and rng.random() < 0.7:
                t.setdefault('c19', {})['td'] = rng.choice(['prints', 'fails'])
                if t['c19']['td'] == 'prints' and c.get('cli_verbosity') is None:
                    t['c19']['verbosity'] = 2
    if 'model' in c:
        c['model'] = runlib.expand(c)      # outcomes / calc_first may have changed
    return c


def eval_batch(batch):
    """worker: batch = {'cases': [...]} / {'gen': [(seed, knobs, reporter)]} / {'exhaustive': [thread cases]}"""
    if 'text_gen' in batch or 'text_cases' in batch:
        return c19text.eval_text_batch(batch)        # wave 5: the text reporter classes driven directly
    st = common.WorkerStats()
    common.use_repo()
    pairs = []
    for c in batch.get('cases', []):
        c = dict(c)
        c['model'] = runlib.expand(c)
        pairs.append((c, observe(c)))
    for seed, knobs, kind in batch.get('gen', []):
        rng = random.Random(seed)
        knobs = dict(knobs)
        pol = knobs.pop('gen_policy', False)
        c = runlib.gen_case(rng, **knobs)
        if pol and c['runner'] == 'thread':
            c['policy'] = runlib.gen_policy(rng, c['nproc'])
        c['seed'] = seed
        c['reporter'] = kind
        decorate(c, rng)
        pairs.append((c, observe(c)))
    for c in batch.get('exhaustive', []):
        c = dict(c)
        c['model'] = runlib.expand(c)
        got = []

        def on_obs(cc, _oo, got=got):
            # re-observe under the recorded schedule with the built-in reporter
            cc = dict(cc)
            cc['policy'] = {'kind': 'script'}
            got.append((cc, observe(cc)))
        runs, done = runlib.enumerate_schedules(c, limit=batch.get('limit', 40), on_obs=on_obs)
        st.count('exhaustive:thread_cases')
        st.count('exhaustive:schedules', runs)
        if not done:
            st.count('exhaustive:truncated')
        pairs += got
    answers = ask19(pairs)
    base_pairs = [(c, {'trace': o['trace'], 'exit': o['exit'], 'err': o['err'], 'selected': o.get('selected')})
                  for c, o in pairs]
    base = runlib.ask_model(base_pairs) if not batch.get('no_base') else [None] * len(pairs)
    shrink_left = batch.get('shrink_s', 12.0)
    for (c, o), a, b in zip(pairs, answers, base):
        st.case({'case': render19(c), 'reporter': c.get('reporter'), 'schedule': o.get('schedule')},
                nontrivial19(c, o))
        count19(st, c, o)
        if len(st.violations) >= 2:
            shrink_left = 0
        if len(st.violations) >= 4:
            st.count('not_judged_after_4_violations_in_batch')
            continue
        shrink_left -= judge(c, o, a, b, st, shrink_left)
    return st


# ======================================================================================================
# case sources
# ======================================================================================================

KNOBS = {'p_calc_then_fail': 0.15, 'p_failed': 0.22, 'p_exc': 0.16, 'p_error': 0.1, 'p_ignored': 0.1, 'p_utd': 0.18, 'p_cont': 0.6,
         'p_dup_sel': 0.0, 'p_teardown': 0.15, 'n_max': 8}

OUTCOMES = ['ok', 'failed', 'error', 'utd', 'ignored', 'staterr', 'utdraise']


def _task(name, oc, **kw):
    t = runlib._new_task(name)
    if oc == 'failed':
        t['outcome'] = 'failed'
    elif oc == 'error':
        t['outcome'] = 'error'
        t['how'] = 'raise'
    elif oc == 'utd':
        t['status'] = 'utd'
    elif oc == 'ignored':
        t['ignored'] = True
    elif oc == 'utdraise':
        t['c19'] = {'utd_raises': True}
    elif oc == 'badvals':
        t['outcome'] = 'saveerr'
        t['c19'] = {'bad_values': 'set'}
    elif oc == 'staterr':
        t['status'] = 'error'
        t['file_dep'] = ['missing_%s' % name]      # runlib's convention: get_status answers 'error' (missing file_dep)
    t.update(kw)
    return t


SHAPES = {
    # name -> list of (task name, {edge kind: [names]})
    'fan': [('a', {}), ('b', {}), ('c', {'task_dep': ['a', 'b']})],
    'chain': [('a', {}), ('b', {'task_dep': ['a']}), ('c', {'task_dep': ['b']})],
    'setup': [('s', {}), ('a', {'setup': ['s']}), ('b', {})],
    'pair': [('a', {}), ('b', {})],
}


def small_scope(shape, outcomes=OUTCOMES):
    """every outcome assignment of a fixed small graph x --continue; the reporter rotates so that over the
    assignments every reporter sees every failure-kind combination"""
    import itertools
    spec = SHAPES[shape]
    out = []
    i = 0
    for combo in itertools.product(outcomes, repeat=len(spec)):
        for cont in (False, True):
            tasks = []
            for (name, edges), oc in zip(spec, combo):
                tasks.append(_task(name, oc, **{k: list(v) for k, v in edges.items()}))
            out.append({'tasks': tasks, 'sel': None, 'cont': cont, 'always': False, 'runner': 'serial', 'nproc': 0,
                        'reporter': KINDS[i % len(KINDS)], 'scope': shape})
            i += 1
    return out


def thread_scope():
    """small thread cases whose every completion order is explored: two independent tasks failing in different ways
    (+ a third in flight), with and without --continue"""
    out = []
    for ocs in (('failed', 'error'), ('error', 'failed'), ('failed', 'ok'), ('failed', 'failed')):
        for cont in (False, True):
            for kind in ('console', 'json'):
                tasks = [_task('a', ocs[0]), _task('b', ocs[1]), _task('c', 'ok')]
                out.append({'tasks': tasks, 'sel': None, 'cont': cont, 'always': False, 'runner': 'thread', 'nproc': 2,
                            'policy': {'kind': 'eager'}, 'reporter': kind, 'scope': 'thread-pair'})
    return out


def plan(ctx, scale=1.0):
    quick = ctx.tier == 'quick'
    n_serial = int((600 if quick else 8000) * ctx.boost * scale)
    n_thread = int((360 if quick else 6000) * ctx.boost * scale)
    n_proc = int((15 if quick else 150) * min(ctx.boost, 2) * scale)
    rng = ctx.rng
    gen = []
    for i in range(n_serial):
        gen.append((rng.randrange(1 << 60), dict(KNOBS, runner='serial', allow_cycle=(i % 12 == 0)), KINDS[i % 5]))
    for i in range(n_thread):
        gen.append((rng.randrange(1 << 60), dict(KNOBS, runner='thread', gen_policy=True, allow_cycle=(i % 12 == 5)),
                    KINDS[(i + 2) % 5]))
    rng.shuffle(gen)
    size = 25 if quick else 60
    pool = [{'gen': gen[i:i + size], 'shrink_s': 10.0} for i in range(0, len(gen), size)]
    procs = [(rng.randrange(1 << 60), dict(KNOBS, runner='process', n_max=6), KINDS[i % 5]) for i in range(n_proc)]
    return pool, [{'gen': procs[i:i + 5], 'shrink_s': 8.0} for i in range(0, len(procs), 5)]


def corpus_batches():
    plain, explore, main = [], [], []
    for name, c in common.load_corpus(PROP):
        c['corpus'] = name
        c.setdefault('reporter', 'console')
        reps = c.pop('reporters', None) or [c['reporter']]
        for r in reps:
            cc = dict(c)
            cc['reporter'] = r
            if cc.get('runner') == 'process':
                main.append(cc)
            elif cc.get('explore') and cc.get('runner') == 'thread':
                explore.append(cc)
            else:
                plain.append(cc)
    pool = []
    for i in range(0, len(plain), 12):
        pool.append({'cases': plain[i:i + 12], 'shrink_s': 10.0})
    for i in range(0, len(explore), 4):
        pool.append({'exhaustive': explore[i:i + 4], 'limit': 60, 'shrink_s': 10.0})
    return pool, ([{'cases': main[i:i + 4], 'shrink_s': 8.0} for i in range(0, len(main), 4)])


def exhaustive_batches(ctx):
    quick = ctx.tier == 'quick' and ctx.boost <= 1
    cases = []
    if quick:
        cases += small_scope('fan', ['ok', 'failed', 'error', 'utd', 'utdraise'])
        cases += small_scope('pair')
        scope = {'graphs': ['fan (5 outcomes)', 'pair (6 outcomes)']}
    else:
        for sh in ('fan', 'chain', 'setup', 'pair'):
            cases += small_scope(sh)
        scope = {'graphs': ['fan', 'chain', 'setup', 'pair'], 'outcomes': OUTCOMES}
    scope.update({'assignments': len(cases), 'flags': '--continue on/off', 'reporter': 'rotating over the five',
                  'thread': 'pairs of failing tasks, 2 workers, every completion order'})
    ctx.extra['exhaustive_small_scope'] = scope
    size = 40 if quick else 80
    out = [{'cases': cases[i:i + size], 'shrink_s': 6.0} for i in range(0, len(cases), size)]
    th = thread_scope()
    out += [{'exhaustive': th[i:i + 4], 'limit': 30, 'shrink_s': 6.0} for i in range(0, len(th), 4)]
    return out


def run(ctx, scale=1.0):
    cpool, cmain = corpus_batches()
    ctx.count('corpus', sum(len(b.get('cases', [])) + len(b.get('exhaustive', [])) for b in cpool + cmain))
    pool, main = plan(ctx, scale)
    n_text = int((3000 if ctx.tier == 'quick' else 40000) * ctx.boost * scale)
    tseeds = [ctx.rng.randrange(1 << 60) for _ in range(n_text)]
    tcorp = [c for _n, c in common.load_corpus(PROP + 'text')]
    text = [{'text_gen': tseeds[i:i + 500]} for i in range(0, n_text, 500)]
    if tcorp:
        text.insert(0, {'text_cases': tcorp})
    batches = cpool + text + exhaustive_batches(ctx) + pool
    for st in common.pmap(eval_batch, batches):
        st.merge_into(ctx)
    if ctx.violations:
        ctx.count('process_batches_skipped_after_violation')
    else:
        for st in runlib.fork_map(eval_batch, cmain + main, procs=4):
            st.merge_into(ctx)


def search(ctx):
    ctx.rng.seed(ctx.seed * 1000003 + 7919)
    run(ctx, scale=2.0 if ctx.time_left() > 0.5 * (ctx.budget_s or 30) else 0.7)


def replay(ctx, data):
    w = data.get('witness') or {}
    if w.get('text_case'):
        tc = w['text_case']
        real, req, ans, probs = c19text.check_one(tc)
        print('%s reporter driven directly, failure_verbosity=%s' % (tc['cls'], tc['fv']))
        for i, t in enumerate(req['tasks']):
            print('  task %d: %s' % (i, t))
        print('  calls:', req['calls'])
        print('real outstream :\n' + real['out'])
        print('model outstream:\n' + ans.get('out', '<driver error>'))
        print('real stderr : %r\nmodel stderr: %r' % (real['err'], ans.get('err')))
        if probs:
            print('FAILED monitors: [%r]' % TEXT_KEY, probs)
        return not probs
    case = w.get('case')
    if not case:
        print('nothing to replay (no failing input was found): %s' % data.get('note'))
        for r in data.get('no_longer_checks', [])[:5]:
            print(' -', r.get('kind'), ':', str(r.get('note'))[:400])
        return False
    case = dict(case)
    case.setdefault('reporter', w.get('reporter') or 'console')
    case['model'] = runlib.expand(case)
    print('\n'.join(render19(case)))
    print('reporter: %s   runner: %s   continue: %s' % (case['reporter'], case['runner'], case.get('cont')))
    saved = (sys.stdout, sys.stderr)
    obs = observe(case)
    time.sleep(0.1)      # a python-action abandoned in a worker thread may still put back the stream it saw (F-C17a)
    sys.stdout, sys.stderr = saved
    ans = ask19([(case, obs)])[0]
    wit = make_witness(case, obs, ans)
    print('exit=%s err=%s (expected exit %s for failure kinds %s)'
          % (obs['exit'], obs['err'], wit['detail'].get('expected_exit'), wit['detail'].get('failure_kinds')))
    print('trace:', wit['trace_text'])
    print('reporter output:\n' + (obs['out'].get('text') or '<none>')[:1200])
    if obs.get('problems'):
        print('problems:', obs['problems'])
    print('python monitors:', wit['python_monitors'])
    print('lean monitors  :', wit['lean_monitors'] if wit['lean_monitors'] is not None else ans)
    if case['reporter'] == 'json':
        print('task list real :', obs.get('doc'))
        print('task list model:', ans.get('json'))
        same = obs.get('doc') == ans.get('json')
    else:
        print('tokens real :', obs.get('tokens'))
        print('tokens model:', ans.get('render'))
        same = obs.get('tokens') == ans.get('render')
    if wit['failed_monitors']:
        print('FAILED monitors:', wit['failed_monitors'], wit['detail'])
        return False
    base = runlib.ask_model([(case, obs)])[0]
    acc = base.get('accepted') or base.get('skipped') or 'error' in base
    print('reporter output equals the model:', same, '  run model accepts the trace:', bool(acc))
    if data.get('failed') == 'correspondence' and not (same and acc):
        return False
    return True
