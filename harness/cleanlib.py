"""Helpers of the `clean` family (C14): case generation, driving the real `doit clean` in-process on real target
trees and a real dependency DB, translation to/from the Lean driver (model "clean").

A *case* is a JSON dict:
  tasks   : list in definition order; a task's *name* is its index.  Each: label, task_dep [idx], setup [idx],
            subtask_of idx|None, targets [relative paths], kind none|targets|actions (+ `actions`: list of
            {type: aware|plain|cmd, eff: None|['rm', path]|['mk', top-level name]}: python callable with / without a
            `dryrun` parameter, shell command; each records that it ran and really removes / creates the file).
            Old seeds may say kind act / actdry (= one plain / one aware action without effect).
            A group (a task that has sub-tasks) is directly followed by its sub-tasks and its task_dep ends with them
            (that is what doit's loader produces); `task_dep` is the list *after* loading.
  pos, defaults (None | [str]), cleandep, cleanall, dryrun, forget : the command line / DOIT_CONFIG
  files, dirs : the target tree before `clean` (relative paths; every parent directory of an entry is in dirs;
                `../x` lies outside the tree)
  links : [[path, destination as written in the link]] symbolic links created after files and dirs
  backend : json | dbm | sqlite3;   ran : labels given to `doit run` beforehand (so that there is state to forget)
"""
import contextlib
import functools
import io
import json
import os
import pathlib
import re
import shutil
import signal

import common

CASE_LIMIT_S = 10.0      # wall-clock limit of one `doit` invocation: a clean that does not come back is an observable


class CaseTimeout(BaseException):
    """not an Exception: DoitMain.run swallows those"""


def _on_alarm(signum, frame):
    raise CaseTimeout()


KINDS = ['none', 'targets', 'actions']
PLAIN_FORMS = ['def', 'kwargs', 'args', 'default', 'partial', 'object', 'tuple', 'param']    # no parameter named dryrun
AWARE_FORMS = ['def', 'default', 'kwonly', 'partial', 'object', 'tuple', 'param']   # a parameter named dryrun
CMD_FORMS = ['str', 'object', 'list']
PARAM_DEFAULT = 'dv'
DBNAME = {'json': 'db.json', 'dbm': 'db.dbm', 'sqlite3': 'db.sqlite'}


# ----------------------------------------------------------------------------------------------
# graph helpers (harness side, independent of the model and of doit)

def deps_of(t):
    return list(t['setup']) + list(t['task_dep'])


def is_acyclic(tasks):
    color = {}

    def visit(i):
        color[i] = 1
        for d in deps_of(tasks[i]):
            c = color.get(d, 0)
            if c == 1 or (c == 0 and not visit(d)):
                return False
        color[i] = 2
        return True
    return all(color.get(i, 0) == 2 or visit(i) for i in range(len(tasks)))


def subs_of(tasks, g):
    return [i for i, t in enumerate(tasks) if t.get('subtask_of') == g]


def own_task_dep(tasks, i):
    """task_dep as written in the dodo file: what the loader appended for sub-tasks is taken off the end"""
    subs = subs_of(tasks, i)
    td = list(tasks[i]['task_dep'])
    if subs:
        assert td[len(td) - len(subs):] == subs, (td, subs)
        td = td[:len(td) - len(subs)]
    return td


# ----------------------------------------------------------------------------------------------
# the implementation side

def norm_case(case):
    """old-style kinds -> action lists (in place on a copy)"""
    c = dict(case)
    tasks = []
    for t in case['tasks']:
        t = dict(t)
        if t['kind'] == 'act':
            t['kind'], t['actions'] = 'actions', [{'type': 'plain', 'eff': None}]
        elif t['kind'] == 'actdry':
            t['kind'], t['actions'] = 'actions', [{'type': 'aware', 'eff': None}]
        elif t['kind'] == 'actions':
            t['actions'] = [{'type': a['type'], 'eff': a.get('eff'), 'fail': a.get('fail'),
                             'form': a.get('form', 'str' if a['type'] == 'cmd' else 'def')}
                            for a in t.get('actions', [])]
        else:
            t.pop('actions', None)
        tasks.append(t)
    c['tasks'] = tasks
    return c


def _apply_eff(eff):
    if not eff:
        return
    if eff[0] == 'rm':
        if os.path.isfile(eff[1]):
            os.remove(eff[1])
    elif eff[0] == 'mk':
        if not os.path.exists(eff[1]):
            open(eff[1], 'a').close()


def _shell_eff(eff):
    if not eff:
        return 'true'
    return ('rm -f %s' if eff[0] == 'rm' else 'touch %s') % eff[1]


def build_namespace(case, log, out, cmdlog='/dev/null'):
    """dict of task creators for ModuleTaskLoader.  All creators come from one `def` so that the loader's sort by
    line number keeps the insertion (= definition) order."""
    tasks = case['tasks']
    labels = [t['label'] for t in tasks]

    def run_action(i):
        def act():
            return {'v': i}
        return act

    def name_it(fn, i, k):
        fn.__qualname__ = fn.__name__ = 'cleanact_%d_%d' % (i, k)
        return fn

    def finish(fail):
        """how a python clean action ends: a failing / raising clean action is reported on stderr and `clean` goes on"""
        if fail == 'false':
            return False
        if fail == 'raise':
            raise RuntimeError('this clean action raises')
        return None

    def clean_plain(i, k, eff, form='def', fail=None):
        """a python clean action WITHOUT a parameter named `dryrun`, in several shapes (all must be left alone by
        --dry-run): plain def, **kwargs catch-all, *args, a defaulted other parameter, functools.partial, object,
        (fn, args, kwargs) tuple, a callable that takes a task parameter (Task.clean -> init_options)"""
        def record(seen_dry=False):
            log.append(('ran', i, k, bool(seen_dry), len(out.getvalue())))
            _apply_eff(eff)
            return finish(fail)
        if form == 'kwargs':
            def clean_fn(**opts):
                return record(opts.get('dryrun', False))
        elif form == 'args':
            def clean_fn(*args):
                return record()
        elif form == 'default':
            def clean_fn(verbose=False):
                return record()
        elif form == 'partial':
            def inner(tag):
                return record()
            return functools.partial(name_it(inner, i, k), 'x')
        elif form == 'object':
            class Obj(object):
                def __call__(self):
                    return record()

                def __repr__(self):
                    return '<cleanact_%d_%d object at 0x0>' % (i, k)
            return Obj()
        elif form == 'tuple':
            def clean_fn(a, b):
                assert (a, b) == ('A', 1), (a, b)      # wrong arguments: the action is not recorded
                return record()
            return (name_it(clean_fn, i, k), ['A'], {'b': 1})
        elif form == 'param':
            def clean_fn(flag):
                assert flag == PARAM_DEFAULT, flag
                return record()
        else:
            def clean_fn():
                return record()
        return name_it(clean_fn, i, k)

    def clean_dry(i, k, eff, form='def', fail=None):
        """a python clean action WITH a parameter named `dryrun` (called on every clean, told the flag)"""
        def record(dryrun):
            log.append(('ran', i, k, bool(dryrun), len(out.getvalue())))
            if not dryrun:
                _apply_eff(eff)
            return finish(fail)
        if form == 'default':
            def clean_fn(dryrun=False):
                return record(dryrun)
        elif form == 'kwonly':
            def clean_fn(*, dryrun):
                return record(dryrun)
        elif form == 'partial':
            def inner(tag, dryrun):
                return record(dryrun)
            return functools.partial(name_it(inner, i, k), 'x')
        elif form == 'object':
            class Obj(object):
                def __call__(self, dryrun):
                    return record(dryrun)

                def __repr__(self):
                    return '<cleanact_%d_%d object at 0x0>' % (i, k)
            return Obj()
        elif form == 'tuple':
            def clean_fn(a, dryrun, b=0):
                assert (a, b) == ('A', 1), (a, b)
                return record(dryrun)
            return (name_it(clean_fn, i, k), ['A'], {'b': 1})
        elif form == 'param':
            def clean_fn(flag, dryrun):
                assert flag == PARAM_DEFAULT, flag
                return record(dryrun)
        else:
            def clean_fn(dryrun):
                return record(dryrun)
        return name_it(clean_fn, i, k)

    def clean_cmd(i, k, eff, form='str', fail=None):
        """a shell clean action: string, CmdAction object, or list form (no shell: argv of `sh -c`)"""
        text = 'echo %d %d >> %s; %s' % (i, k, cmdlog, _shell_eff(eff))
        if fail:
            text += '; false'
        if form == 'object':
            from doit.action import CmdAction
            return CmdAction(text)
        if form == 'list':
            return ['sh', '-c', text]
        return text

    def clean_list(i):
        res = []
        for k, a in enumerate(tasks[i].get('actions', [])):
            if a['type'] == 'aware':
                res.append(clean_dry(i, k, a.get('eff'), a.get('form', 'def'), a.get('fail')))
            elif a['type'] == 'plain':
                res.append(clean_plain(i, k, a.get('eff'), a.get('form', 'def'), a.get('fail')))
            else:
                res.append(clean_cmd(i, k, a.get('eff'), a.get('form', 'str'), a.get('fail')))
        return res

    def task_dict(i, name_field):
        t = tasks[i]
        d = {'actions': [run_action(i)], 'verbosity': 0}
        if name_field is not False:
            d['name'] = name_field
        td = own_task_dep(tasks, i)
        if td:
            d['task_dep'] = [labels[x] for x in td]
        if t['setup']:
            d['setup'] = [labels[x] for x in t['setup']]
        if t['targets']:
            pf = t.get('pathform', 'str')
            if pf == 'path':
                d['targets'] = [pathlib.Path(x) for x in t['targets']]
            elif pf == 'pure':
                d['targets'] = tuple(pathlib.PurePosixPath(x) for x in t['targets'])
            else:
                d['targets'] = list(t['targets'])
        if any(a.get('form') == 'param' for a in t.get('actions', [])):
            d['params'] = [{'name': 'flag', 'default': PARAM_DEFAULT, 'long': 'flag'}]
        if t['kind'] == 'targets':
            d['clean'] = True
        elif t['kind'] == 'actions':
            d['clean'] = clean_list(i)
        return d

    def make_creator(i):
        subs = subs_of(tasks, i)

        def gen():
            g = task_dict(i, None)
            del g['actions']
            yield g
            for s in subs:
                yield task_dict(s, labels[s].split(':', 1)[1])

        def creator():
            return gen() if subs else task_dict(i, False)
        return creator

    ns = {}
    for i, t in enumerate(tasks):
        if t.get('subtask_of') is None:
            ns['task_' + t['label']] = make_creator(i)
    return ns


def make_world(case):
    """cwd is <root>/w; paths starting with `../` lie outside the target tree (still inside the scratch root)"""
    for d in sorted(case['dirs']):
        os.makedirs(d, exist_ok=True)
    for f in case['files']:
        if os.path.dirname(f):
            os.makedirs(os.path.dirname(f), exist_ok=True)
        with open(f, 'w') as fh:
            fh.write('x')
    for link, dest in case.get('links', []):
        if os.path.dirname(link):
            os.makedirs(os.path.dirname(link), exist_ok=True)
        os.symlink(dest, link)


def snapshot():
    """(files, dirs, links) of the whole scratch root, paths relative to the cwd (<root>/w); links are pairs
    (path of the link, resolved destination); the DB files and the shell log at the root are not part of it"""
    files, dirs, links = [], [], []
    here = os.path.realpath('.')
    top = os.path.dirname(here)
    for root, ds, fs in os.walk(top):
        for name in list(ds) + list(fs):
            full = os.path.join(root, name)
            rel = os.path.relpath(full, here)
            if root == top and (name.startswith('db.') or name == 'cmdlog'):
                continue
            if rel == '.':
                continue
            if os.path.islink(full):
                links.append([rel, os.path.relpath(os.path.realpath(full), here)])
            elif name in ds:
                dirs.append(rel)
            else:
                files.append(rel)
    return sorted(files), sorted(dirs), sorted(links)


def read_db(backend, path, labels):
    """{index: content} of the tasks that have saved state, through the backend API"""
    from doit import dependency as dep
    cls = {'json': dep.JsonDB, 'dbm': dep.DbmDB, 'sqlite3': dep.SqliteDB}[backend]
    if backend == 'json' and not os.path.exists(path):
        return {}
    db = cls(path, dep.JSONCodec())
    res = {}
    try:
        for i, lab in enumerate(labels):
            if db.in_(lab):
                res[i] = [db.get(lab, '_values_:'), db.get(lab, 'checker:'), db.get(lab, 'deps:')]
    finally:
        try:
            if backend != 'json':      # JsonDB.dump would rewrite the file; nothing was changed
                db.dump()
        except Exception:  # noqa
            pass
        if backend == 'sqlite3':
            try:
                db._conn.close()
            except Exception:  # noqa
                pass
    return res



def invocations(events):
    """the Task.clean invocations that can be seen in an event list: a new one starts when the task changes, when
    the index of an announced action does not increase, or when a `clean: True` task reports a path a second time
    (one invocation visits each action / target once; the order of targets inside an invocation is not assumed)"""
    order, seen, last_k = [], set(), None
    for e in events:
        if e[0] in ('ran', 'cmd'):
            continue
        if e[0] == 'executing':
            if not order or order[-1] != e[1] or last_k is None or e[2] <= last_k:
                order.append(e[1])
                seen = set()
            last_k = e[2]
        else:
            if not order or order[-1] != e[1] or e[2] in seen or last_k is not None:
                order.append(e[1])
                seen = set()
            last_k = None
            seen.add(e[2])
    return order


LINE = re.compile(r"^(.*?) - (executing|removing file|removing dir|cannot remove \(it is not empty\)) '(.*)'$")
ACTNO = re.compile(r"cleanact_(\d+)_(\d+)|echo (\d+) (\d+) >>")


def doit_main(ns, argv):
    from doit.doit_cmd import DoitMain
    from doit.cmd_base import ModuleTaskLoader
    out, err = io.StringIO(), io.StringIO()
    with contextlib.redirect_stdout(out), contextlib.redirect_stderr(err):
        try:
            code = DoitMain(ModuleTaskLoader(ns)).run(list(argv))
        except SystemExit as e:
            code = e.code
    return code, out, err


def run_impl(case):
    """run `doit run <ran>` then `doit clean ...` on the tree under test; returns the observation dict"""
    common.use_repo()
    tasks = case['tasks']
    labels = [t['label'] for t in tasks]
    root = common.scratch_dir('c14')
    old = os.getcwd()
    obs = {}
    old_handler = signal.signal(signal.SIGALRM, _on_alarm)
    try:
        signal.setitimer(signal.ITIMER_REAL, 2 * CASE_LIMIT_S)
        os.mkdir(os.path.join(root, 'w'))
        os.chdir(os.path.join(root, 'w'))
        dbpath = os.path.join(root, DBNAME[case['backend']])
        cfg = {'dep_file': dbpath, 'backend': case['backend'], 'verbosity': 0}
        if case.get('defaults') is not None:
            cfg['default_tasks'] = list(case['defaults'])
        # 1. populate the DB with a real run
        if case.get('ran'):
            log0, out0 = [], io.StringIO()
            ns = build_namespace(case, log0, out0)
            ns['DOIT_CONFIG'] = dict(cfg)
            ns['DOIT_CONFIG'].pop('default_tasks', None)
            ns['DOIT_CONFIG']['reporter'] = 'zero'
            code, o, e = doit_main(ns, ['run'] + list(case['ran']))
            obs['run_code'] = code
        make_world(case)
        obs['files0'], obs['dirs0'], obs['links0'] = snapshot()
        db0 = read_db(case['backend'], dbpath, labels)
        obs['db0'] = sorted(db0)
        # 2. clean
        argv = ['clean']
        for flag, opt in (('cleandep', '--clean-dep'), ('cleanall', '--clean-all'), ('dryrun', '--dry-run'),
                          ('forget', '--forget')):
            if case.get(flag):
                argv.append(opt)
        argv += list(case['pos'])
        log = []
        out = io.StringIO()
        # the namespace's clean actions record the current length of the captured stdout: total order of events
        holder = {}

        class OutProxy(object):
            def getvalue(self):
                return holder['out'].getvalue() if 'out' in holder else ''
        cmdlog = os.path.join(root, 'cmdlog')
        ns = build_namespace(case, log, OutProxy(), cmdlog)
        ns['DOIT_CONFIG'] = dict(cfg)
        from doit.doit_cmd import DoitMain
        from doit.cmd_base import ModuleTaskLoader
        err = io.StringIO()
        holder['out'] = out
        with contextlib.redirect_stdout(out), contextlib.redirect_stderr(err):
            try:
                code = DoitMain(ModuleTaskLoader(ns)).run(argv)
            except SystemExit as e:
                code = e.code
        text, etext = out.getvalue(), err.getvalue()
        obs['code'] = code
        obs['argv'] = argv
        # events in order: stdout lines (with their end offset) merged with the recorded calls
        evs = []
        pos = 0
        lab2i = {l: i for i, l in enumerate(labels)}
        junk = []
        for line in text.split('\n'):
            end = pos + len(line) + 1
            m = LINE.match(line)
            if m and m.group(1) in lab2i:
                t = lab2i[m.group(1)]
                tag = {'executing': 'executing', 'removing file': 'rm-file', 'removing dir': 'rm-dir',
                       'cannot remove (it is not empty)': 'not-empty'}[m.group(2)]
                if tag == 'executing':
                    mm = ACTNO.search(m.group(3))
                    k = int(mm.group(2) or mm.group(4)) if mm else -1
                    evs.append((end, 0, [tag, t, k]))
                else:
                    evs.append((end, 0, [tag, t, m.group(3)]))
            elif line.strip():
                junk.append(line[:200])
            pos = end
        for (_, t, k, dry, at) in log:
            evs.append((at, 1, ['ran', t, k, dry]))
        obs['cmds'] = []
        if os.path.exists(cmdlog):
            with open(cmdlog) as fh:
                obs['cmds'] = [['cmd'] + [int(x) for x in line.split()] for line in fh if line.strip()]
        evs.sort(key=lambda e: (e[0], e[1]))
        obs['events'] = [e[2] for e in evs]
        obs['order'] = invocations(obs['events'])
        obs['junk'] = junk[:5]
        if code in (0, None):
            obs['outcome'] = 'ok'
        elif 'is not a task' in etext or 'is not a task' in text:
            obs['outcome'] = 'not-a-task'
        elif 'KeyError' in etext or 'KeyError' in text:
            obs['outcome'] = 'key-error'
        else:
            obs['outcome'] = 'error:%s' % (etext.strip().split('\n')[-1][:120] if etext.strip() else code)
        obs['files'], obs['dirs'], obs['links'] = snapshot()
        db1 = read_db(case['backend'], dbpath, labels)
        obs['db'] = sorted(db1)
        obs['db_survivors_intact'] = all(db1[k] == db0.get(k) for k in db1)
    except CaseTimeout:
        obs['outcome'] = 'timeout'
    except Exception as ex:  # noqa  -- a crash of doit outside DoitMain's own handling is data
        obs['outcome'] = 'exc:' + type(ex).__name__ + ':' + str(ex)[:100]
    finally:
        signal.setitimer(signal.ITIMER_REAL, 0)
        signal.signal(signal.SIGALRM, old_handler)
        os.chdir(old)
        shutil.rmtree(root, ignore_errors=True)
    return obs


# ----------------------------------------------------------------------------------------------
# the model side

def to_req(case, obs=None):
    req = {'model': 'clean',
           'tasks': [{'label': t['label'], 'task_dep': t['task_dep'], 'setup': t['setup'],
                      'subtask_of': t.get('subtask_of'), 'targets': t['targets'], 'kind': t['kind'],
                      'actions': t.get('actions', [])}
                     for t in case['tasks']],
           'pos': case['pos'], 'defaults': case.get('defaults'),
           'cleandep': bool(case.get('cleandep')), 'cleanall': bool(case.get('cleanall')),
           'dryrun': bool(case.get('dryrun')), 'forget': bool(case.get('forget')),
           'files': (obs or {}).get('files0', case['files']), 'dirs': (obs or {}).get('dirs0', case['dirs']),
           'links': (obs or {}).get('links0', []),
           'db': (obs or {}).get('db0', [])}
    if obs is not None and obs.get('outcome') == 'ok':
        req['obs'] = {'order': obs['order'], 'files': obs['files'], 'dirs': obs['dirs'], 'db': obs['db'],
                      'links': obs.get('links', [])}
    return req


def model_order_seen(ans):  # noqa
    """the model's order restricted to tasks with visible behaviour (as the implementation's is)"""
    return invocations(ans.get('events', []))


def compare(case, obs, ans):
    """(K): list of differences between the implementation's observables and the model's answer"""
    diffs = []
    if obs.get('outcome') != ans.get('outcome'):
        return ['outcome: impl %s model %s' % (obs.get('outcome'), ans.get('outcome'))]
    if ans.get('outcome') != 'ok':
        return diffs
    if ans.get('crashed'):
        diffs.append('the model emitted a `crash` event (impossible since fix a5ed062: clean_runs_to_its_end)')
    if ans.get('oof'):
        diffs.append('model ran out of fuel')
    m_events = [e for e in ans['events'] if e[0] != 'cmd']
    m_cmds = [e for e in ans['events'] if e[0] == 'cmd']
    if obs['events'] != m_events:
        diffs.append('events: impl %s model %s' % (obs['events'], m_events))
    if obs.get('cmds', []) != m_cmds:
        diffs.append('shell clean actions executed: impl %s model %s' % (obs.get('cmds'), m_cmds))
    if sorted(l[0] for l in obs.get('links', [])) != sorted(ans.get('links', [])):
        diffs.append('links: impl %s model %s' % (obs.get('links'), ans.get('links')))
    for k in ('files', 'dirs', 'db'):
        if sorted(obs[k]) != sorted(ans[k]):
            diffs.append('%s: impl %s model %s' % (k, obs[k], ans[k]))
    return diffs


def monitor(case, obs, ans):
    """(P): the property statement on the implementation's behaviour.  Returns list of failed clauses."""
    failed = []
    if obs.get('outcome') == 'timeout':
        return ['`doit clean` (or the preceding `doit run`) did not come back within %d s' % int(2 * CASE_LIMIT_S)]
    if obs.get('outcome') != 'ok':
        # the property speaks about successful clean invocations; a refusal must at least leave everything alone
        if obs.get('files0') is not None and (obs.get('files') != obs.get('files0') or obs.get('dirs') != obs.get('dirs0')
                                              or obs.get('links') != obs.get('links0')
                                              or obs.get('db') != obs.get('db0') or obs.get('events')):
            failed.append('a refused invocation changed files/DB or ran clean behaviour')
        return failed
    mon = ans.get('monitor')
    if mon is None:
        # the model refused what the implementation accepted: nothing to evaluate the statement against
        return failed
    if not mon['order']:
        failed.append('order: not (each selected task once, exactly the clean set, dependents first)')
    if not mon['effects']:
        failed.append('effects: files/directories/DB after clean are not what the statement allows')
    if not obs.get('db_survivors_intact', True):
        failed.append('saved state of a task that was not forgotten changed')
    # per action: executed at most once; on a dry run only a callable that takes `dryrun` runs, and is told True;
    # on a real clean every announced action runs exactly once (python ones told False)
    tasks = case['tasks']
    ran = [e for e in obs['events'] if e[0] == 'ran'] + list(obs.get('cmds', []))
    keys = [(e[1], e[2]) for e in ran]
    if len(set(keys)) != len(keys):
        failed.append('a clean action was executed twice')
    dry = bool(case.get('dryrun'))
    for e in ran:
        acts = tasks[e[1]].get('actions', []) if e[1] < len(tasks) else []
        typ = acts[e[2]]['type'] if 0 <= e[2] < len(acts) else '?'
        if dry and typ != 'aware':
            failed.append('a clean action that does not take `dryrun` (%s #%d of %s) was executed on a dry run'
                          % (typ, e[2], tasks[e[1]]['label']))
        if e[0] == 'ran' and typ == 'aware' and e[3] != dry:
            failed.append('clean action got a wrong dryrun value')
    announced = [(e[1], e[2]) for e in obs['events'] if e[0] == 'executing']
    if not dry and sorted(set(announced)) != sorted(set(keys)):
        failed.append('announced clean actions and executed clean actions differ')
    # "runs the clean behaviour" of a task whose clean is a list = every action of the list, also after one that failed
    for t in set(obs['order']):
        acts = tasks[t].get('actions', []) if tasks[t]['kind'] == 'actions' else []
        if acts and sorted(k for (tt, k) in set(announced) if tt == t) != list(range(len(acts))):
            failed.append('not every clean action of %s was reached (%d in its list)' % (tasks[t]['label'], len(acts)))
    return failed
