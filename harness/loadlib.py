"""Helpers of the loader family (model M6, property C18): case format, concretisation of a case into a real
namespace of task-creators, drivers of the real doit (API level and CLI in-process), the model request, and the
property monitor.

Case (JSON, identical to the `doitdrv` request of lean/Driver/Load.lean plus concretisation hints):

  {"creators": [{"name": str, "line": int, "kind": "func"|"obj"|"objb", "result": R}, ...]}
  R = {"k":"dict","d":D} | {"k":"gen","items":[G]} | {"k":"task","t":TA} | {"k":"none"} | {"k":"other"}
  G = {"k":"dict","d":D} | {"k":"task","t":TA} | {"k":"other"} | {"k":"nested","items":[G]}
  D = [[attr, V], ...]      (attr: a Task.valid_attr key, or anything else = unknown field)
  V = ["none"] | ["bool",b] | ["int",n] | ["float",halves] | ["str",s] | ["list",[s]] | ["tuple",[s]]
      | ["dict",[[key, task|null]]] | ["callable"] | ["object"]
  TA = {"name","task_dep","setup","calc_dep","targets","file_dep","subtask_of","has_subtask"}  constructor arguments of
       a Task object returned/yielded by a creator

Abstraction boundary (what the model does not see): items of `actions`/`clean`/`teardown` become python callables,
items of `uptodate` become `True`, items of `params` become option dicts, `["float",h]` is h/2, a malformed
getargs entry (task = null) is the string 'bad'.
"""
import contextlib
import inspect
import io
import json
import linecache
import os
import re
import traceback

import common

MAXLINE = 64
LOADING_FILES = ('loader.py', 'task.py', 'control.py', 'cmd_base.py', 'doit_cmd.py', 'cmd_run.py', 'cmd_list.py',
                 'dependency.py', '?')
PSEUDO = '<c18-creators>'
_LINE_SRC = 'def creator(): return BUILD()\n'
linecache.cache[PSEUDO] = (MAXLINE * len(_LINE_SRC), None, [_LINE_SRC] * MAXLINE, PSEUDO)
_code_cache = {}

VALID_ATTRS = ['basename', 'name', 'actions', 'file_dep', 'task_dep', 'uptodate', 'calc_dep', 'targets', 'setup',
               'clean', 'teardown', 'doc', 'params', 'pos_arg', 'verbosity', 'io', 'getargs', 'title', 'watch', 'meta']


def ok_callable(*args, **kwargs):
    return 'ok'


class Opaque(object):
    def __repr__(self):
        return '<Opaque>'


def py_value(attr, v):
    """concretise an abstract value (fresh object on every call: doit mutates what it is given)"""
    tag = v[0]
    if tag == 'none':
        return None
    if tag == 'bool':
        return bool(v[1])
    if tag == 'int':
        return int(v[1])
    if tag == 'float':
        return v[1] / 2.0
    if tag == 'str':
        return v[1]
    if tag in ('list', 'tuple'):
        if attr in ('actions', 'clean', 'teardown'):
            items = [ok_callable for _ in v[1]]
        elif attr == 'uptodate':
            items = [True for _ in v[1]]
        elif attr == 'params':
            items = [{'name': 'p%d' % i, 'default': ''} for i, _ in enumerate(v[1])]
        else:
            items = list(v[1])
        return items if tag == 'list' else tuple(items)
    if tag == 'dict':
        return {k: ((t, 'key') if t is not None else 'bad') for k, t in v[1]}
    if tag == 'callable':
        return ok_callable
    return Opaque()


OTHER_KINDS = ['int', 'float', 'str', 'empty-str', 'bytes', 'bool', 'none', 'list', 'empty-list', 'list-of-dicts', 'set',
               'frozenset', 'tuple0', 'tuple1', 'tuple2', 'tuple3', 'tuple-of-dicts', 'tuple-name-actions', 'object',
               'callable', 'type']


def other_value(kind):
    """a value that is neither a dict, a Task nor a generator (what a creator wrongly returns / yields)"""
    act = {'name': 'n', 'actions': [ok_callable]}
    return {'int': 42, 'float': 1.5, 'str': 'a string', 'empty-str': '', 'bytes': b'b', 'bool': True, 'none': None,
            'list': [1, 2], 'empty-list': [], 'list-of-dicts': [dict(act)], 'set': {1, 2}, 'frozenset': frozenset([1]),
            'tuple0': (), 'tuple1': (1,), 'tuple2': (1, 2), 'tuple3': ('a', 'b', 'c'),
            'tuple-of-dicts': (dict(act), dict(act, name='m')), 'tuple-name-actions': ('name', ['cmd']),
            'object': Opaque(), 'callable': ok_callable, 'type': dict}.get(kind, 42)


def py_dict(d):
    out = {}
    for attr, v in d:
        out[attr] = py_value(attr, v)
    return out


def py_task(doit_task, ta):
    return doit_task.Task(ta['name'], None, task_dep=list(ta.get('task_dep', [])), setup=list(ta.get('setup', [])),
                          calc_dep=list(ta.get('calc_dep', [])), targets=list(ta.get('targets', [])),
                          file_dep=list(ta.get('file_dep', [])), subtask_of=ta.get('subtask_of'),
                          has_subtask=bool(ta.get('has_subtask', False)))


def snapshot(t):
    """observable fields of a real Task object"""
    return {'name': t.name, 'task_dep': list(t.task_dep), 'wild_dep': list(t.wild_dep),
            'setup': sorted(t.setup_tasks), 'calc_dep': sorted(t.calc_dep), 'targets': list(t.targets),
            'file_dep': sorted(t.file_dep), 'subtask_of': t.subtask_of, 'has_subtask': bool(t.has_subtask),
            'getargs': sorted(v[0] for v in t.getargs.values()) if isinstance(t.getargs, dict) else []}


def _gen_from(doit_task, items):
    def gen():
        for it in items:
            k = it['k']
            if k == 'dict':
                yield py_dict(it['d'])
            elif k == 'task':
                yield py_task(doit_task, it['t'])
            elif k == 'nested':
                yield _gen_from(doit_task, it['items'])
            else:
                yield other_value(it.get('py', 'int'))
    return gen()


def _builder(doit_task, result):
    k = result['k']
    if k == 'dict':
        return lambda: py_dict(result['d'])
    if k == 'gen':
        return lambda: _gen_from(doit_task, result['items'])
    if k == 'task':
        return lambda: py_task(doit_task, result['t'])
    if k == 'none':
        return lambda: None
    kind = result.get('py', 'int')
    return lambda: other_value(kind if kind != 'none' else 'int')


def _function_at(line, builder):
    line = max(1, min(MAXLINE, int(line)))
    code = _code_cache.get(line)
    if code is None:
        code = compile('\n' * (line - 1) + _LINE_SRC, PSEUDO, 'exec')
        _code_cache[line] = code
    ns = {'BUILD': builder}
    exec(code, ns)
    return ns['creator']


FILE_KINDS = ['func', 'wrapped', 'wrapped2', 'method', 'create_after', 'task_params', 'obj']
_MODULE_HEAD = '''"""generated dodo module (C18 harness, file mode)"""
import functools
from doit.loader import create_after, task_params

BUILD = {}


def logged(creator):
    """an ordinary decorator shared by several task-creators"""
    @functools.wraps(creator)
    def wrapper(*args, **kwargs):
        return creator(*args, **kwargs)
    return wrapper


def traced(creator):
    @functools.wraps(creator)
    def inner(*args, **kwargs):
        return creator(*args, **kwargs)
    return inner


class _Obj(object):
    pass


def _ignored():
    return {'actions': None}


# a partial is neither a function nor a method: the loader must ignore it
task_zz_partial = functools.partial(_ignored)

'''
_file_state = {'dir': None, 'n': 0}


def file_key(c):
    """the attribute name under which a file-mode creator lives in the module"""
    return c['name'] if c.get('kind') == 'obj' else 'task_' + c['name']


def module_source(case):
    """python source of a dodo module defining the creators in the order of their `line`"""
    out = [_MODULE_HEAD]
    order = sorted(range(len(case['creators'])), key=lambda i: int(case['creators'][i]['line']))
    for i in order:
        c = case['creators'][i]
        kind, nm = c.get('kind', 'func'), c['name']
        body = '    return BUILD[%d]()\n' % i
        if kind == 'wrapped':
            out.append('@logged\ndef task_%s():\n%s' % (nm, body))
        elif kind == 'wrapped2':
            out.append('@traced\n@logged\ndef task_%s():\n%s' % (nm, body))
        elif kind == 'method':
            out.append('class _C%d(object):\n    def make(self):\n    %s\n\ntask_%s = _C%d().make\n' % (i, body, nm, i))
        elif kind == 'create_after':
            out.append('@create_after()\ndef task_%s():\n%s' % (nm, body))
        elif kind == 'task_params':
            out.append('@task_params([])\ndef task_%s():\n%s' % (nm, body))
        elif kind == 'obj':
            out.append('def _f%d():\n%s\n\n%s = _Obj()\n%s.create_doit_tasks = _f%d\n' % (i, body, nm, nm, i))
        else:
            out.append('def task_%s():\n%s' % (nm, body))
        out.append('\n\n')
    return ''.join(out)


def build_module(case):
    """write the module to a scratch file and import it (so that inspect.getsourcelines works on real source)"""
    import importlib.util
    common.use_repo()
    from doit import task as doit_task
    if _file_state['dir'] is None or _file_state.get('pid') != os.getpid():
        _file_state['dir'] = common.scratch_dir('c18mod')
        _file_state['pid'] = os.getpid()
    _file_state['n'] += 1
    name = 'c18mod_%d_%d' % (os.getpid(), _file_state['n'])
    path = os.path.join(_file_state['dir'], name + '.py')
    with open(path, 'w') as f:
        f.write(module_source(case))
    spec = importlib.util.spec_from_file_location(name, path)
    mod = importlib.util.module_from_spec(spec)
    spec.loader.exec_module(mod)
    for i, c in enumerate(case['creators']):
        mod.BUILD[i] = _builder(doit_task, c['result'])
    return mod, path


def build_namespace(case):
    """the dict of task-creators (what a dodo module's namespace would be)"""
    common.use_repo()
    from doit import task as doit_task
    if case.get('mode') == 'file':
        from doit.cmd_base import ModuleTaskLoader
        mod, path = build_module(case)
        ns = dict(ModuleTaskLoader(mod).namespace)      # = dict(inspect.getmembers(module)): alphabetical
        # the source stays on disk until the process' scratch dir is removed (inspect reads it lazily)
        return ns
    ns = {}
    for i, c in enumerate(case['creators']):
        f = _function_at(c['line'], _builder(doit_task, c['result']))
        kind = c.get('kind', 'func')
        key = 'task_' + c['name'] if kind == 'func' else c['name']
        if key in ns:
            kind = 'objb'       # two creators of the same name cannot both be keys of one namespace
        if kind == 'func':
            ns['task_' + c['name']] = f
        elif kind == 'obj':
            o = Opaque()
            o.create_doit_tasks = f
            ns[c['name']] = o
        else:
            o = Opaque()
            f.basename = c['name']
            o.create_doit_tasks = f
            ns['zz_creator_%d' % i] = o
    return ns


def command_names():
    common.use_repo()
    from doit.doit_cmd import DoitMain
    return sorted(DoitMain().get_cmds().keys())


# ----------------------------------------------------------------------------------------------
# model request

def _fmt(v):
    try:
        return format(v)
    except Exception:  # noqa
        return '?'


def _model_dict(d):
    out = []
    for attr, v in d:
        out.append([attr if attr in VALID_ATTRS else 'unknown', v])
    return out


def _model_task(doit_task, ta):
    """the model is given the observable fields of the Task object the creator hands over"""
    s = snapshot(py_task(doit_task, ta))
    return {'name': s['name'], 'task_dep': s['task_dep'], 'wild_dep': s['wild_dep'], 'setup': s['setup'],
            'calc_dep': s['calc_dep'], 'targets': s['targets'], 'file_dep': s['file_dep'],
            'subtask_of': s['subtask_of'], 'has_subtask': s['has_subtask']}


def _dget(d, attr):
    for a, v in d:
        if a == attr:
            return v
    return None


def _model_gen(doit_task, it):
    k = it['k']
    if k == 'dict':
        nv, bv = _dget(it['d'], 'name'), _dget(it['d'], 'basename')
        return {'k': 'dict', 'd': _model_dict(it['d']),
                'nf': _fmt(py_value('name', nv)) if nv is not None else '',
                'bf': _fmt(py_value('basename', bv)) if bv is not None else ''}
    if k == 'task':
        return {'k': 'task', 't': _model_task(doit_task, it['t'])}
    if k == 'nested':
        return {'k': 'nested', 'items': [_model_gen(doit_task, x) for x in it['items']]}
    return {'k': 'other'}


def model_request(case, cmds):
    common.use_repo()
    from doit import task as doit_task
    creators = []
    listed = case['creators']
    if case.get('mode') == 'file':
        listed = sorted(listed, key=file_key)          # namespace order of a module: inspect.getmembers sorts by name
    for c in listed:
        r = c['result']
        if r['k'] == 'dict':
            mr = {'k': 'dict', 'd': _model_dict(r['d'])}
        elif r['k'] == 'gen':
            mr = {'k': 'gen', 'items': [_model_gen(doit_task, x) for x in r['items']]}
        elif r['k'] == 'task':
            mr = {'k': 'task', 't': _model_task(doit_task, r['t'])}
        else:
            mr = {'k': r['k']}
        creators.append({'name': c['name'], 'line': max(1, min(MAXLINE, int(c['line']))), 'result': mr})
    return {'model': 'load', 'cmds': cmds, 'creators': creators}


# ----------------------------------------------------------------------------------------------
# the implementation

def _crash_site(ex):
    """innermost doit frame of an unexpected exception: 'file.py:function'"""
    site = '?'
    for fr in traceback.extract_tb(ex.__traceback__):
        if os.sep + 'doit' + os.sep in fr.filename:
            site = '%s:%s' % (os.path.basename(fr.filename), fr.name)
    return site


def run_api(case, cmds):
    """loader.load_tasks + TaskControl on the real code.  Returns {'load': O, 'control': O}."""
    common.use_repo()
    from doit import loader
    from doit.control import TaskControl
    from doit.exceptions import InvalidTask, InvalidDodoFile
    ns = build_namespace(case)

    def classify(ex):
        if isinstance(ex, InvalidTask):
            return {'out': 'invalidTask', 'msg': str(ex)[:160]}
        if isinstance(ex, InvalidDodoFile):
            return {'out': 'invalidDodo', 'msg': str(ex)[:160]}
        return {'out': 'crash', 'exn': type(ex).__name__, 'site': _crash_site(ex), 'msg': str(ex)[:160]}
    try:
        tasks = loader.load_tasks(ns, cmds)
    except Exception as ex:  # noqa
        o = classify(ex)
        return {'load': o, 'control': o}
    lo = {'out': 'tasks', 'tasks': [snapshot(t) for t in tasks]}
    try:
        TaskControl(tasks)
    except Exception as ex:  # noqa
        return {'load': lo, 'control': classify(ex)}
    return {'load': lo, 'control': {'out': 'tasks', 'tasks': [snapshot(t) for t in tasks]}}


def run_cli(case, argv, workdir):
    """DoitMain(ModuleTaskLoader(ns)).run(argv) in-process.  Returns {'code','error','traceback','err'}."""
    common.use_repo()
    from doit.doit_cmd import DoitMain
    from doit.cmd_base import ModuleTaskLoader
    ns = build_namespace(case)
    dep = os.path.join(workdir, 'c18.%d.db' % os.getpid())
    ns['DOIT_CONFIG'] = {'dep_file': dep, 'backend': 'json', 'verbosity': 0, 'outfile': os.devnull}
    out, err = io.StringIO(), io.StringIO()
    old = os.getcwd()
    os.chdir(workdir)
    try:
        with contextlib.redirect_stdout(out), contextlib.redirect_stderr(err):
            try:
                code = DoitMain(ModuleTaskLoader(ns)).run(list(argv))
            except SystemExit as ex:
                code = ex.code
            except BaseException as ex:  # noqa   an exception escaping DoitMain.run is a traceback for the user
                code = 'raised'
                err.write('Traceback (escaped DoitMain.run)\n%s: %s\n' % (type(ex).__name__, ex))
    finally:
        os.chdir(old)
        for suffix in ('', '.bak', '.dat', '.dir'):
            with contextlib.suppress(OSError):
                os.remove(dep + suffix)
    e = err.getvalue()
    site = None
    if 'Traceback' in e:
        site = '?'
        for mm in re.finditer(r'File "[^"]*[/\\]doit[/\\]([a-z_]+\.py)", line \d+, in (\S+)', e):
            site = '%s:%s' % (mm.group(1), mm.group(2))
    return {'code': code, 'error': e.startswith('ERROR:') or '\nERROR:' in e, 'traceback': 'Traceback' in e,
            'site': site, 'cyclic': 'Cyclic' in e, 'err': e[-300:]}


# ----------------------------------------------------------------------------------------------
# correspondence: model answer vs implementation observation

def _canon_task(t):
    return {'name': t['name'], 'wild_dep': list(t['wild_dep']), 'setup': sorted(t['setup']),
            'calc_dep': sorted(t['calc_dep']), 'targets': list(t['targets']), 'file_dep': sorted(t['file_dep']),
            'subtask_of': t['subtask_of'], 'has_subtask': bool(t['has_subtask'])}


def diff_level(model, impl, level):
    """None when the observables agree, else a short description"""
    if model['out'] != impl['out']:
        return '%s: model %s, implementation %s' % (level, model['out'], impl['out'])
    if model['out'] == 'crash' and model.get('exn') != impl.get('exn'):
        return '%s: model crash %s, implementation crash %s' % (level, model.get('exn'), impl.get('exn'))
    if model['out'] != 'tasks':
        return None
    mt, it = model['tasks'], impl['tasks']
    if [t['name'] for t in mt] != [t['name'] for t in it]:
        return '%s: task names/order model %s, implementation %s' % (level, [t['name'] for t in mt],
                                                                     [t['name'] for t in it])
    for m, i in zip(mt, it):
        if _canon_task(m) != _canon_task(i):
            return '%s: task %r fields model %s, implementation %s' % (level, m['name'], _canon_task(m), _canon_task(i))
        if 'pre' in m:
            k = len(m['pre'])
            if i['task_dep'][:k] != m['pre'] or sorted(i['task_dep'][k:]) != sorted(m['implicit']):
                return '%s: task %r task_dep model %s + implicit %s, implementation %s' % (
                    level, m['name'], m['pre'], m['implicit'], i['task_dep'])
        elif m['task_dep'] != i['task_dep']:
            return '%s: task %r task_dep model %s, implementation %s' % (level, m['name'], m['task_dep'], i['task_dep'])
    return None


# ----------------------------------------------------------------------------------------------
# (P) the statement of C18 on the implementation's behaviour

def spec_table():
    """accepted types / values per attribute, read from the tree under test, *typed* reading: a value is of the right
    type when it is an instance of a listed class or is identical in type and value to a listed literal (or to the
    default of Task.__init__)."""
    common.use_repo()
    from doit.task import Task
    sig = inspect.signature(Task.__init__)
    table = {}
    for attr, (types, values) in Task.valid_attr.items():
        vals = list(values)
        p = sig.parameters.get(attr)
        if p is not None and p.default is not inspect.Parameter.empty:
            vals.append(p.default)
        table[attr] = (tuple(types), vals)
    return table


def right_type(table, attr, value):
    types, values = table[attr]
    if types and isinstance(value, types):
        return True
    return any(type(value) is type(v) and value == v for v in values)


def _walk_dicts(case):
    """every task dict of the case with its position: (creator index, 'return'|'yield', dict)"""
    for ci, c in enumerate(case['creators']):
        r = c['result']
        if r['k'] == 'dict':
            yield ci, 'return', r['d']
        elif r['k'] == 'gen':
            stack = [list(r['items'])]
            flat = []

            def walk(items):
                for it in items:
                    if it['k'] == 'nested':
                        walk(it['items'])
                    else:
                        flat.append(it)
            walk(r['items'])
            for it in flat:
                if it['k'] == 'dict':
                    yield ci, 'yield', it['d']


def flat_items(result):
    out = []

    def walk(items):
        for it in items:
            if it['k'] == 'nested':
                walk(it['items'])
            else:
                out.append(it)
    walk(result['items'])
    return out


def sorted_creators(case):
    cs = list(case['creators'])
    return sorted(cs, key=lambda c: max(1, min(MAXLINE, int(c['line']))))      # stable, like list.sort


def expected_names(case):
    """the task names the creators *define*, in definition order (mini specification, used only when every
    name/basename is a string).  Returns (names, duplicates) or (None, None) when not determined."""
    names, dups = [], []

    def define(n):
        if n in names:
            dups.append(n)
        names.append(n)
    for c in sorted_creators(case):
        r = c['result']
        if r['k'] == 'dict':
            b = _dget(r['d'], 'basename')
            if b is not None and b[0] != 'str':
                return None, None
            define(b[1] if b is not None else c['name'])
        elif r['k'] == 'task':
            define(r['t']['name'])
        elif r['k'] == 'gen':
            items = flat_items(r)
            if not items:
                define(c['name'])
            local = {}      # name -> 'plain' | 'group' within this generator
            for it in items:
                if it['k'] == 'task':
                    define(it['t']['name'])
                    local[it['t']['name']] = 'plain'
                elif it['k'] == 'dict':
                    d = it['d']
                    b, n = _dget(d, 'basename'), _dget(d, 'name')
                    if b is not None and b[0] != 'str':
                        return None, None
                    base = b[1] if (b is not None and b[1]) else None
                    if n is None:
                        if base is None:
                            return None, None      # neither name nor basename: a defect, must be rejected
                        define(base)
                        local[base] = 'plain'
                    else:
                        base = base or c['name']
                        if n[0] == 'none':
                            if local.get(base) != 'group':
                                define(base)
                            local[base] = 'group'
                        elif n[0] == 'str':
                            if local.get(base) != 'group':
                                define(base)
                                local[base] = 'group'
                            define(base + ':' + n[1])
                            local[base + ':' + n[1]] = 'plain'
                        else:
                            return None, None
                else:
                    return None, None
        elif r['k'] == 'other':
            return None, None
    return names, dups


def is_subsequence(xs, ys):
    it = iter(ys)
    return all(any(x == y for y in it) for x in xs)


def monitor(case, api, cmds, table, cli=None):
    """list of reason codes for which the statement of C18 is false on what the implementation did.
    api = run_api(...); cli = {'list': run_cli, 'run': run_cli} or None."""
    reasons = []
    for level in ('load', 'control'):
        o = api[level]
        if o['out'] == 'crash':
            reasons.append('crash:%s@%s' % (o['exn'], o.get('site', '?')))
            break
    ctl = api['control']
    if ctl['out'] == 'tasks':
        tasks = ctl['tasks']
        names = [t['name'] for t in tasks]
        nameset = set(names)
        # --- well-formedness of what was accepted
        if len(nameset) != len(names):
            reasons.append('accepted:duplicate-task-name')
        for t in tasks:
            if not isinstance(t['name'], str):
                reasons.append('accepted:task-name-not-str')
        for kind in ('task_dep', 'setup', 'calc_dep', 'getargs'):
            for t in tasks:
                if any(d not in nameset for d in t[kind]):
                    reasons.append('accepted:dangling-%s' % kind)
                    break
        seen_t = set()
        for t in tasks:
            for tg in t['targets']:
                if tg in seen_t:
                    reasons.append('accepted:duplicate-target')
                seen_t.add(tg)
        by_name = {t['name']: t for t in tasks}
        # Task objects that a creator marked as sub-task by hand are handed through unprocessed: the group clauses
        # are about the sub-tasks the loader makes from `basename`/`name` dicts
        handmade = set()
        for c in case['creators']:
            r = c['result']
            tas = [r['t']] if r['k'] == 'task' else (
                [it['t'] for it in flat_items(r) if it['k'] == 'task'] if r['k'] == 'gen' else [])
            handmade.update(ta['name'] for ta in tas if ta.get('subtask_of'))
        for t in tasks:
            b = t['subtask_of']
            if b is None or t['name'] in handmade:
                continue
            g = by_name.get(b)
            if g is None or not g['has_subtask']:
                reasons.append('accepted:subtask-without-group')
                break
        for g in tasks:
            subs = [t['name'] for t in tasks if t['subtask_of'] == g['name'] and t['name'] not in handmade]
            if subs and not is_subsequence(subs, g['task_dep']):
                reasons.append('accepted:group-misses-subtask-or-order')
                break
        # the same attachment must already hold on what load_tasks returns (commands that build no TaskControl)
        if api['load']['out'] == 'tasks':
            ltasks = api['load']['tasks']
            for g in ltasks:
                subs = [t['name'] for t in ltasks if t['subtask_of'] == g['name'] and t['name'] not in handmade]
                if subs and not is_subsequence(subs, g['task_dep']):
                    reasons.append('accepted:group-misses-subtask-or-order@load_tasks')
                    break
        for n in names:
            if n in cmds:
                reasons.append('accepted:command-name')
                break
        # --- listed defects of the input that were not rejected
        for ci, how, d in _walk_dicts(case):
            keys = [a for a, _ in d]
            is_group_attrs = how == 'yield' and _dget(d, 'name') is not None and _dget(d, 'name')[0] == 'none'
            for attr, v in d:
                if attr not in table:
                    reasons.append('accepted:unknown-field')
                elif not (is_group_attrs and attr == 'name') and not right_type(table, attr, py_value(attr, v)):
                    reasons.append('accepted:wrong-type:%s:%s' % (attr, json.dumps(v)))
            if 'actions' not in keys and not is_group_attrs:
                reasons.append('accepted:missing-actions')
            if how == 'return' and 'name' in keys:
                reasons.append('accepted:name-in-returned-dict')
            if how == 'yield' and 'name' not in keys and 'basename' not in keys:
                reasons.append('accepted:missing-name')
        for c in case['creators']:
            r = c['result']
            if r['k'] == 'other' or (r['k'] == 'gen' and any(it['k'] == 'other' for it in flat_items(r))):
                reasons.append('accepted:creator-result-not-a-task')
            if c['name'] in cmds:
                reasons.append('accepted:command-name')
        exp, dups = expected_names(case)
        if exp is not None:
            if dups:
                reasons.append('accepted:duplicate-definition')
            elif exp != names:
                reasons.append('accepted:names-or-order-differ')
    if cli:
        crashed = any(r.startswith('crash:') for r in reasons)
        for cmd, o in sorted(cli.items()):
            level = 'load' if cmd == 'list' else 'control'
            if o['traceback']:
                # a traceback out of the loading code (not out of executing/reporting a loaded task: C17/C19);
                # when the API level already shows the crash, the CLI traceback is the same event
                if not crashed and (o.get('site') or '?').split(':')[0] in LOADING_FILES:
                    reasons.append('cli-%s:traceback@%s' % (cmd, o.get('site')))
            elif api[level]['out'] in ('invalidTask', 'invalidDodo') and not (o['code'] == 3 and o['error']):
                reasons.append('cli-%s:rejection-without-exit-3-diagnostic' % cmd)
    out = []
    for r in reasons:
        if r not in out:
            out.append(r)
    return out
