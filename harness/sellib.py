"""Helpers of the selection family (M8): case generator, translation of a generated task set into (a) the request of
the Lean model and (b) a namespace of real doit task-creators, and the two ways the implementation is driven:
`TaskControl(...).process(...)` and the `run` command in-process.

A *case* is a JSON value:
  {"tasks": [TASKDEF...], "argv": [str...], "default": null | [str...], "single": bool}
  TASKDEF = {"name", "task_dep", "setup", "calc_dep", "file_dep", "targets", "params": [PARAM-NAME...], "pos_arg": bool,
             "utd": bool, "delayed": bool, "subs": null | [TASKDEF without subs...]}     (subs != null: a group)
"""
import contextlib
import fnmatch
import io
import os
import shutil

import common

# the option vocabulary tasks draw their `params` from
PARAMS = {
    'flag': {'name': 'flag', 'short': 'f', 'long': 'flag', 'type': bool, 'default': False},
    'val': {'name': 'val', 'short': 'v', 'long': 'val', 'type': str, 'default': ''},
    'x': {'name': 'x', 'short': 'x', 'type': bool, 'default': False},
    'lo': {'name': 'lo', 'long': 'lo', 'type': str, 'default': 'd'},
}
SRC_FILE = 'src.txt'           # the only file_dep that is not a target: created by the harness


# ---- written forms of a file name (targets / file_dep / command-line words)
#   'o1.out'            a str, taken literally by doit (selection by target, implicit task_dep and duplicate-target
#                       detection compare strings: './o1.out' and 'o1.out' are different names)
#   {'path': './o1.out'} a pathlib.Path in the task dict: doit keeps str(path), i.e. pathlib's normal form 'o1.out'
#   '@ABS@/o1.out'       absolute spelling; '@ABS@' stands for the directory of the run (substituted when the real task
#                       dict / argv is built; the model compares the placeholder spelling, the substitution is injective)
ABS = '@ABS@'
_ROOT = ['/abs-root-of-the-run']


def mstr(entry):
    """the string doit keeps for a targets / file_dep entry (what the model compares)"""
    if isinstance(entry, dict):
        import pathlib
        return str(pathlib.PurePosixPath(entry['path']))
    return entry


def sub(s):
    return s.replace(ABS, _ROOT[0]) if isinstance(s, str) else s


def unsub(s):
    return s.replace(_ROOT[0], ABS) if isinstance(s, str) else s


def real_entry(entry):
    """the value put into the real task dict"""
    if isinstance(entry, dict):
        import pathlib
        return pathlib.Path(sub(entry['path']))
    return sub(entry)


def mtargets(d):
    return [mstr(e) for e in d.get('targets', []) or []]


def mfile_dep(d):
    return [mstr(e) for e in d.get('file_dep', []) or []]


def model_param(pname):
    p = PARAMS[pname]
    return {'short': p.get('short', ''), 'long': p.get('long', ''), 'val': p['type'] is not bool}


# ----------------------------------------------------------------------------------------------
# case -> model tasks (what TaskControl receives, written down independently of doit's loader)

def flat_defs(case):
    """[(full name, def, group name or None, is_group)] in definition order (group first, then its sub-tasks)"""
    out = []
    for t in case['tasks']:
        if t.get('subs') is not None:
            out.append((t['name'], t, None, True))
            for s in t['subs']:
                out.append(('%s:%s' % (t['name'], s['name']), s, t['name'], False))
        else:
            out.append((t['name'], t, None, False))
    return out


def model_tasks(case):
    res = []
    for full, d, grp, is_group in flat_defs(case):
        if is_group:
            res.append({'name': full, 'task_dep': list(d.get('task_dep', [])) + ['%s:%s' % (full, s['name']) for s in d['subs']],
                        'setup': [], 'calc_dep': [], 'file_dep': [], 'targets': [], 'has_subtask': True, 'params': [],
                        'pos_arg': False, 'delayed': False, 'utd': False})
        elif d.get('delayed'):
            # what TaskControl sees before the creator ran: a placeholder whose only dependency is `executed`
            res.append({'name': full, 'task_dep': [d['delayed_after']] if d.get('delayed_after') else [],
                        'setup': [], 'calc_dep': [], 'file_dep': [], 'targets': [], 'has_subtask': False, 'params': [],
                        'pos_arg': False, 'delayed': True, 'utd': False})
        else:
            res.append({'name': full, 'task_dep': list(d.get('task_dep', [])), 'setup': list(d.get('setup', [])),
                        'calc_dep': list(d.get('calc_dep', [])), 'file_dep': sorted(mfile_dep(d)),
                        'targets': mtargets(d), 'has_subtask': False,
                        'params': [model_param(p) for p in d.get('params', [])], 'pos_arg': bool(d.get('pos_arg')),
                        'delayed': bool(d.get('delayed')), 'utd': bool(d.get('utd'))})
    return res


def request(case, obs=None):
    req = {'model': 'sel', 'tasks': model_tasks(case), 'args': list(case['argv']), 'default': case.get('default'),
           'single': bool(case.get('single'))}
    if case.get('entry'):
        req['entry'] = case['entry']
    if obs is not None:
        req['obs'] = obs
    return req


# ----------------------------------------------------------------------------------------------
# case -> real task creators

def _task_dict(full, d, events):
    def action(**kw):
        events.append(['run', full, {k: kw[k] for k in sorted(kw)}])
        for tg in mtargets(d):
            with open(sub(tg), 'w') as f:
                f.write(full)
        return True
    dct = {'actions': [action]}
    for key in ('task_dep', 'setup', 'calc_dep'):
        if d.get(key):
            dct[key] = list(d[key])
    for key in ('file_dep', 'targets'):
        if d.get(key):
            dct[key] = [real_entry(e) for e in d[key]]
            if d.get('pathform') == 'tuple':
                dct[key] = tuple(dct[key])
    if d.get('params'):
        dct['params'] = [dict(PARAMS[p]) for p in d['params']]
    if d.get('pos_arg'):
        dct['pos_arg'] = 'pos'
    if d.get('utd'):
        dct['uptodate'] = [True]
    return dct


def _make_creator(d, events):
    """one `def` for every kind of creator: the loader orders creators by the line number of their definition, and
    equal line numbers keep the order of the namespace (= the order of the case)"""
    if d.get('subs') is not None:
        def body():
            if d.get('task_dep'):
                yield {'name': None, 'task_dep': list(d['task_dep'])}
            for s in d['subs']:
                dct = _task_dict('%s:%s' % (d['name'], s['name']), s, events)
                dct['name'] = s['name']
                yield dct
    elif d.get('delayed'):
        def body():
            events.append(['created', d['name']])
            return _task_dict(d['name'], d, events)
    else:
        def body():
            return _task_dict(d['name'], d, events)

    def creator(): return body()   # noqa: E704  (keep on one line)
    if d.get('delayed'):
        from doit import create_after
        creator = create_after(executed=d.get('delayed_after'))(creator)
    return creator


def build_namespace(case, events):
    ns = {}
    for t in case['tasks']:
        ns['task_' + t['name']] = _make_creator(t, events)
    return ns


# ----------------------------------------------------------------------------------------------
# implementation, first way: the API  TaskControl(task_list).process(selection)

def err_obs(ex):
    name = type(ex).__name__
    if name == 'InvalidCommand' and getattr(ex, 'not_found', None) is not None:
        return ['notFound', unsub(ex.not_found)]
    if name == 'CmdParseError':
        return ['optErr']
    return ['exc', name]


def impl_control(case):
    """observables: task_dep of every task after TaskControl.__init__, the selected list or error of process(),
    the pos_arg_val of tasks that take positional arguments"""
    common.use_repo()
    from doit import loader
    from doit.control import TaskControl
    events = []
    out = {}
    try:
        ns = build_namespace(case, events)
        tasks = loader.load_tasks(ns, allow_delayed=True)
        tc = TaskControl(tasks)
        out['deps'] = [[t.name, list(t.task_dep)] for t in tasks]
        sel = [sub(a) for a in case['argv']] or case.get('default')   # DoitCmdBase.execute: `args or default_tasks`
        if sel is not None:
            sel = [sub(a) for a in sel]
        try:
            tc.process(list(sel) if sel is not None else None)
            out['sel'] = ['ok', list(tc.selected_tasks)]
        except Exception as ex:  # noqa
            out['sel'] = err_obs(ex)
        out['pos'] = sorted([t.name, [unsub(v) for v in t.pos_arg_val]] for t in tasks
                            if t.pos_arg is not None and t.pos_arg_val is not None)
    except Exception as ex:  # noqa
        out['sel'] = ['exc', type(ex).__name__ + ':' + str(ex)[:80]]
    return out


# ----------------------------------------------------------------------------------------------
# implementation, second way: the `run` command in-process

_REC = []


def _reporter_class():
    from doit.reporter import ZeroReporter

    class RecReporter(ZeroReporter):
        def get_status(self, task):
            _REC.append(['get_status', task.name])

        def execute_task(self, task):
            _REC.append(['execute', task.name])

        def add_failure(self, task, fail_info):
            _REC.append(['failure', task.name])

        def add_success(self, task):
            _REC.append(['success', task.name])

        def skip_uptodate(self, task):
            _REC.append(['up-to-date', task.name])

        def skip_ignore(self, task):
            _REC.append(['ignored', task.name])

        def runtime_error(self, msg):
            _REC.append(['runtime_error', msg[:200]])
    return RecReporter


def classify_stderr(err):
    if 'invalid parameter: "' in err:
        return ['notFound', unsub(err.split('invalid parameter: "', 1)[1].split('". Must be', 1)[0])]
    if 'Error parsing Task' in err:
        return ['optErr']
    if 'Cyclic/recursive' in err:
        return ['cyclic']
    if 'Traceback' in err:
        return ['traceback', err.strip().split('\n')[-1][:120]]
    if err.strip():
        return ['other', err.strip().split('\n')[0][:120]]
    return None


def impl_cli(case, workdir):
    """`doit run [--single] ARGV` through DoitMain on a fresh scratch directory and DB.
    observables: exit code, error class, reporter callbacks, action events"""
    common.use_repo()
    from doit.doit_cmd import DoitMain
    from doit.cmd_base import ModuleTaskLoader
    for name in os.listdir(workdir):
        p = os.path.join(workdir, name)
        if os.path.isdir(p):
            shutil.rmtree(p, ignore_errors=True)
        else:
            os.remove(p)
    old = os.getcwd()
    os.chdir(workdir)
    _ROOT[0] = os.path.realpath(workdir)
    events = []
    api_error = None
    del _REC[:]
    out_s, err_s = io.StringIO(), io.StringIO()
    try:
        with open(SRC_FILE, 'w') as f:
            f.write('src')
        for full, d, grp, is_group in flat_defs(case):
            for tg in ([] if is_group else mtargets(d) + mfile_dep(d)):
                # --single drops the implicit task_dep on the producer of a file_dep: the file must exist anyway
                with open(sub(tg), 'w') as f:
                    f.write('pre')
        ns = build_namespace(case, events)
        # doit's own reporters write to the stream bound at import time (the real stdout): send them to a file
        cfg = {'dep_file': 'db.json', 'backend': 'json', 'verbosity': 0, 'outfile': 'report.out'}
        rep_opt = []
        reporter = case.get('reporter')          # None: the recording reporter class; else one of doit's own
        if reporter is None:
            cfg['reporter'] = _reporter_class()
        elif case.get('reporter_via') == 'config':
            cfg['reporter'] = reporter
        else:
            rep_opt = ['-r', reporter] if case.get('reporter_via') != 'long' else ['--reporter=' + reporter]
        if case.get('default') is not None:
            cfg['default_tasks'] = [sub(a) for a in case['default']]
        ns['DOIT_CONFIG'] = cfg
        argv = ['run'] + rep_opt + (['--single'] if case.get('single') else []) + [sub(a) for a in case['argv']]
        with contextlib.redirect_stdout(out_s), contextlib.redirect_stderr(err_s):
            try:
                if case.get('entry') == 'run_tasks':
                    # doit.api.run_tasks: the selection is the list of keys, no command line is parsed; user errors are
                    # raised to the caller (observed as the exit class 3 + the error)
                    from doit.api import run_tasks
                    from doit.cmdparse import CmdParseError
                    from doit.exceptions import InvalidCommand, InvalidDodoFile, InvalidTask
                    if case.get('single'):
                        cfg['single'] = True
                    try:
                        code = run_tasks(ModuleTaskLoader(ns), {sub(a): {} for a in case['argv']})
                    except (CmdParseError, InvalidDodoFile, InvalidCommand, InvalidTask) as e:
                        code = 3
                        api_error = err_obs(e)
                else:
                    code = DoitMain(ModuleTaskLoader(ns)).run(argv)
            except SystemExit as e:
                code = e.code
            except BaseException as e:  # noqa
                code = ['exc', type(e).__name__]
    finally:
        os.chdir(old)
    rec = [list(r) for r in _REC]
    processed, started = [], []
    for kind, name in rec:
        if kind == 'runtime_error':
            continue
        if name not in processed:
            processed.append(name)
        if kind != 'get_status' and name not in started:
            started.append(name)
    ran = [e[1] for e in events if e[0] == 'run']
    kwargs = {e[1]: e[2] for e in events if e[0] == 'run'}
    actions_only = case.get('reporter') is not None
    if actions_only:
        # doit's own reporter was in use: what is observed is what the recording actions wrote, in their order
        processed = list(dict.fromkeys(ran))
        started = list(processed)
    return {'actions_only': actions_only, 'exit': code,
            'error': api_error if case.get('entry') == 'run_tasks' else classify_stderr(err_s.getvalue()), 'processed': processed, 'started': started,
            'ran': ran, 'kwargs': kwargs, 'reporter': rec,
            'runtime_error': [r[1] for r in rec if r[0] == 'runtime_error']}


def obs_for_monitor(cli):
    code = cli['exit'] if isinstance(cli['exit'], int) else 99
    return {'exit': code, 'processed': cli['processed'], 'started': cli['started'], 'ran': cli['ran'],
            'actions_only': bool(cli.get('actions_only'))}


# ----------------------------------------------------------------------------------------------
# generator

NAME_POOLS = [
    # legal literal names made of glob metacharacters (only `*` makes a task_dep / an argument a pattern)
    ['a[1]', 'a1', 'a?', 'a', 'ab', 'b]'],
    ['c[ab]', 'ca', 'cb', 'c', '[c]', 'c??'],
    ['a', 'ab', 'abc', 'b', 'ba', 'c'],
    ['t1', 't2', 't10', 't', 'tt', 'x1'],
    ['build', 'build_all', 'bundle', 'test', 'test_x', 'lint'],
    ['p', 'pq', 'q', 'qp', 'pp', 'r'],
]
SUB_NAMES = ['a', 'b', 's1', 'x', 'ab', 'case[1]', 'case1', 's?']


def lit_pattern(pat):
    """generated PATTERNS stay inside what the model's glob supports (`*`, `?`, literals): a `[` or `]` taken over from
    a task name becomes `?` (still matches that name)"""
    return pat.replace('[', '?').replace(']', '?')
TARGET_POOL = ['o1.out', 'o2.out', 'gen.c', 'a', 'b', 't1', 'build', 'p', 'q.o', 'ab:c', 'x=1.o']


def all_names(case):
    return [f[0] for f in flat_defs(case)]


def edges_of(case):
    """the static graph after wild-card expansion and implicit deps (python side, for generator validity only)"""
    defs = flat_defs(case)
    names = [f[0] for f in defs]
    prod = {}
    for full, d, grp, is_group in defs:
        for tg in ([] if is_group else mtargets(d)):
            prod.setdefault(tg, full)
    g = {}
    for full, d, grp, is_group in defs:
        deps = []
        if d.get('delayed'):
            g[full] = [d['delayed_after']] if d.get('delayed_after') else []
            continue
        for dep in d.get('task_dep', []):
            if '*' in dep:
                deps += [n for n in names if fnmatch.fnmatchcase(n, dep)]
            else:
                deps.append(dep)
        if is_group:
            deps += ['%s:%s' % (full, s['name']) for s in d['subs']]
        else:
            deps += list(d.get('setup', [])) + list(d.get('calc_dep', []))
            deps += [prod[f] for f in mfile_dep(d) if f in prod]
        g[full] = deps
    return g


def is_acyclic(g):
    state = {}

    def visit(n):
        if state.get(n) == 1:
            return False
        if state.get(n) == 2:
            return True
        state[n] = 1
        for m in g.get(n, []):
            if m in g and not visit(m):
                return False
        state[n] = 2
        return True
    return all(visit(n) for n in list(g))


def valid_case(case):
    """what TaskControl / the loader accept without complaint and the model assumes: unique names, unique targets,
    deps name existing tasks, no cycle"""
    names = all_names(case)
    if len(set(names)) != len(names):
        return False
    seen_t = set()
    for full, d, grp, is_group in flat_defs(case):
        for tg in mtargets(d) if not is_group else []:
            if tg in seen_t:
                return False
            seen_t.add(tg)
        for key in ('task_dep', 'setup', 'calc_dep'):
            for dep in d.get(key, []):
                if '*' not in dep and dep not in names:
                    return False
    return is_acyclic(edges_of(case))


def respell(rng, entry):
    """another written form of the same file (entry: a str or {'path': ...})"""
    base = mstr(entry)
    if base.startswith(ABS + '/'):
        base = base[len(ABS) + 1:]
    while base.startswith('./'):
        base = base[2:]
    return rng.choice([base, './' + base, ABS + '/' + base, {'path': base}, {'path': './' + base}, './/' + base])


def gen_taskdef(rng, name, earlier, targets_free, allow_attrs=True):
    d = {'name': name, 'task_dep': [], 'setup': [], 'calc_dep': [], 'file_dep': [], 'targets': [], 'params': [],
         'pos_arg': False, 'utd': False, 'delayed': False, 'subs': None}
    if not allow_attrs:
        return d
    if earlier:
        if rng.random() < 0.45:
            d['task_dep'] = rng.sample(earlier, min(len(earlier), rng.choice([1, 1, 2])))
        if rng.random() < 0.2:
            d['setup'] = [rng.choice(earlier)]
        if rng.random() < 0.12:
            d['calc_dep'] = [rng.choice(earlier)]
        if rng.random() < 0.12:
            base = rng.choice(earlier)
            pat = rng.choice([base[:1] + '*', base + '*', '*' + base[-1:], base[:1] + '?*', 'zz*', base.split(':')[0] + ':*'])
            d['task_dep'].append(lit_pattern(pat))
    if targets_free and rng.random() < 0.35:
        d['targets'] = [targets_free.pop(rng.randrange(len(targets_free)))]
        if rng.random() < 0.2:
            d['targets'] = [respell(rng, d['targets'][0])]
            if rng.random() < 0.3:
                d['pathform'] = 'tuple'
    if rng.random() < 0.3:
        d['params'] = rng.sample(sorted(PARAMS), rng.choice([1, 1, 2, 3]))
    if rng.random() < 0.12:
        d['pos_arg'] = True
    if not d['targets'] and rng.random() < 0.12:
        d['utd'] = True
    return d


def gen_tasks(rng, delayed_ok=False):
    pool = list(rng.choice(NAME_POOLS))
    rng.shuffle(pool)
    n = rng.choice([1, 2, 2, 3, 3, 4, 4, 5])
    targets_free = rng.sample(TARGET_POOL, 5)
    tasks, earlier = [], []
    for name in pool[:n]:
        if rng.random() < 0.25:
            g = {'name': name, 'task_dep': [], 'subs': []}
            if earlier and rng.random() < 0.15:
                # group attributes given with a `name: None` dict: the group depends on something besides its sub-tasks
                g['task_dep'] = [rng.choice(earlier + [lit_pattern(rng.choice(earlier)[:1] + '*')])]
            for sn in rng.sample(SUB_NAMES, rng.choice([1, 2, 2, 3])):
                sd = gen_taskdef(rng, sn, earlier, targets_free)
                g['subs'].append(sd)
            tasks.append(g)
            earlier += [name] + ['%s:%s' % (name, s['name']) for s in g['subs']]
        else:
            d = gen_taskdef(rng, name, earlier, targets_free)
            if delayed_ok and rng.random() < 0.3:
                # a creator decorated with @create_after: only the api tier drives these cases
                d.update({'delayed': True, 'delayed_after': rng.choice(earlier) if earlier and rng.random() < 0.6 else None,
                          'task_dep': [], 'setup': [], 'calc_dep': [], 'targets': [], 'utd': False})
                tasks.append(d)
                continue           # nothing may depend on it: its real attributes are unknown until it is created
            tasks.append(d)
            earlier.append(name)
    # dependencies were drawn from earlier definitions only: shuffle the definition order so that it differs from a
    # topological order
    if rng.random() < 0.5:
        rng.shuffle(tasks)
    case = {'tasks': tasks}
    # file_dep on targets of other tasks (implicit task_dep) and on the plain source file
    defs = flat_defs(case)
    tg_all = [(tg, full) for full, d, grp, is_group in defs if not is_group for tg in d.get('targets', [])]
    spell = rng.random() < 0.25       # this task set writes some file names in another form
    for full, d, grp, is_group in defs:
        if is_group or d.get('utd') or d.get('delayed'):
            continue
        if tg_all and rng.random() < 0.3:
            for tg, prod in rng.sample(tg_all, min(len(tg_all), rng.choice([1, 1, 2, 3]))):
                if prod != full:
                    if spell and rng.random() < 0.5:
                        tg = respell(rng, tg)       # same or another spelling of the producer's target
                    d['file_dep'].append(tg)
                    if not is_acyclic(edges_of(case)) or not valid_case(case):
                        d['file_dep'].remove(tg)
        if rng.random() < 0.1:
            d['file_dep'].append(SRC_FILE)
    return tasks


def option_tokens(rng, params, valid=True):
    """a few option tokens for a task with the given params"""
    toks = []
    for _ in range(rng.choice([1, 1, 2, 3])):
        if not params or (not valid and rng.random() < 0.5):
            toks.append(rng.choice(['-z', '--nope', '-f', '--flag=1', '-', '--']))
            continue
        p = PARAMS[rng.choice(params)]
        is_val = p['type'] is not bool
        forms = []
        if 'short' in p:
            forms.append(['-' + p['short']] + (['V%d' % rng.randrange(3)] if is_val else []))
            if is_val:
                forms.append(['-%sW' % p['short']])
                forms.append(['-' + p['short'], rng.choice(['-f', '--', 'a', 't1', 'a=b', 'k=1', ''])])   # a value that looks like something else
            else:
                others = [PARAMS[q] for q in params if 'short' in PARAMS[q] and q != p['name']]
                if others:
                    o = rng.choice(others)
                    forms.append(['-%s%s' % (p['short'], o['short'])] + (['V'] if o['type'] is not bool else []))
        if 'long' in p:
            if is_val:
                forms.append(['--%s=%s' % (p['long'], rng.choice(['1', '', 'a=b']))])
                forms.append(['--' + p['long'], rng.choice(['LV', 'LV', 'a=b'])])
            else:
                forms.append(['--' + p['long']])
        toks += rng.choice(forms)
    if rng.random() < 0.15:
        toks.append('--')
    return toks


def name_like_tokens(rng, case):
    """tokens standing at a name position: names, groups, sub-tasks, targets, patterns (0..n matches), unknown"""
    defs = flat_defs(case)
    names = [f[0] for f in defs]
    targets = [tg for full, d, grp, is_group in defs if not is_group for tg in mtargets(d)]
    r = rng.random()
    if r < 0.05:
        # command-line variables (removed by DoitMain.process_args before selection) and the empty word
        return rng.choice(['k=v', 'x=1', 'a=', rng.choice(names) + '=1', 'a.b=1', 'x=1.o', 'k=', ''])
    if r < 0.5:
        return rng.choice(names)
    if r < 0.6 and targets:
        tg = rng.choice(targets)
        if any(isinstance(e, dict) or e.startswith(('./', ABS)) for f in defs for e in (f[1].get('targets') or [])) \
                and rng.random() < 0.4:
            return mstr(respell(rng, tg))      # the file under another spelling: only the declared string selects
        return tg
    if r < 0.87:
        base = rng.choice(names)
        return lit_pattern(rng.choice(
            ['*', base[:1] + '*', base + '*', '*' + base[-1:], base[:1] + '?*', '?' * len(base) + '*',
             base.split(':')[0] + ':*', '*:*', 'zz*', base[:-1] + '*' if len(base) > 1 else 'q*',
             '*' + base[1:], base[:1] + '*' + base[-1:]]))
    delayed = [f[0] for f in defs if f[1].get('delayed')]
    if delayed and r < 0.93:
        return rng.choice(delayed) + rng.choice([':x', ':sub:y', ':'])
    if r < 0.905:
        # unknown names made of the metacharacters of both string-formatting styles: the not-found diagnostic
        # interpolates the user-supplied name
        base = rng.choice(names)
        return rng.choice([base + '{}', '{' + base + '}', base + ':{x86,arm}', base + '}', '{' + base, '{0}', '{}', '%s',
                           base + '%(x)s', '%d%%', '{bin_name}', '{not_found}', base + '{0.__class__}'])
    if r < 0.93:
        base = rng.choice(names)
        return rng.choice(['nosuch', base + 'x', base[:-1] or 'zz', '?' * len(base), base + ':nosub', base.upper(),
                           SRC_FILE])
    return rng.choice(names)


def gen_argv(rng, case):
    if rng.random() < 0.12:
        return []
    argv = []
    by_name = {f[0]: f[1] for f in flat_defs(case) if not f[3]}
    for _ in range(rng.choice([1, 1, 2, 2, 3, 3, 4])):
        tok = name_like_tokens(rng, case)
        argv.append(tok)
        d = by_name.get(tok)
        if d is not None:
            r = rng.random()
            if d.get('params') and r < 0.6:
                argv += option_tokens(rng, d['params'])
            elif r < 0.06:
                argv += option_tokens(rng, d.get('params', []), valid=False)
            if d.get('pos_arg') and rng.random() < 0.7:
                argv += [rng.choice(['p1', 'nosuch', rng.choice(list(by_name))]) for _ in range(rng.choice([1, 2]))]
    return argv


def gen_case(rng, delayed_ok=None, entry_ok=True):
    if delayed_ok is None:
        delayed_ok = rng.random() < 0.12
    for _ in range(50):
        tasks = gen_tasks(rng, delayed_ok)
        case = {'tasks': tasks, 'argv': [], 'default': None, 'single': False}
        if valid_case(case):
            break
    else:
        case = {'tasks': [gen_taskdef(rng, 'a', [], [], allow_attrs=False)], 'argv': [], 'default': None, 'single': False}
    case['argv'] = gen_argv(rng, case)
    r = rng.random()
    if r < 0.3:
        saved = case['argv']
        case['default'] = gen_argv(rng, case) if rng.random() < 0.9 else []
        case['argv'] = saved if rng.random() < 0.35 else []
    case['single'] = rng.random() < 0.3
    r = rng.random()
    if entry_ok and r > 0.93 and case['argv']:
        # doit.api.run_tasks({name: {}, ...}): distinct names / patterns / targets, no option words, no name=value removal
        keys = [a for a in dict.fromkeys(case['argv']) if a and not a.startswith('-')]
        if keys:
            case['argv'] = keys
            case['entry'] = 'run_tasks'
            if rng.random() < 0.3:
                case['argv'].append(rng.choice(['x=1.o', 'k=v']))
            return case
    if r < 0.35:
        # the cli run uses one of doit's own reporters; the start order is then taken from the recording actions
        case['reporter'] = rng.choice(['json', 'json', 'json', 'zero', 'executed-only', 'console', 'error-only'])
        case['reporter_via'] = rng.choice(['short', 'long', 'config'])
    return case


# bracket classes (wave 5): the model's glob is the whole of fnmatch.translate now

def bracket_pattern(rng, names, star=True):
    """a pattern built around a task name with one character replaced by a bracket expression (plain, negated, range,
    empty range, `]` first, trailing / leading hyphen, the `!`-after-empty-range corner, backslash, unterminated `[`)"""
    base = rng.choice(names) if names else 'a'
    i = rng.randrange(len(base)) if base else 0
    ch = base[i:i + 1] or 'a'
    other = rng.choice('abc1x]?[-!^\\')
    up = chr(min(ord(ch) + 2, 126))
    down = chr(max(ord(ch) - 1, 33))
    cls = rng.choice([
        '[%s%s]' % (ch, other), '[%s%s]' % (other, ch), '[!%s]' % other, '[!%s]' % ch, '[!%s%s]' % (other, ch),
        '[%s-%s]' % (ch, up), '[%s-%s]' % (down, up), '[!%s-%s]' % (down, up), '[%s-%s]' % (up, ch), '[!%s-%s]' % (up, ch),
        '[]%s]' % ch, '[!]%s]' % other, '[%s-]' % ch, '[-%s]' % ch, '[!-%s]' % other, '[b-a!]', '[b-a!%s]' % other,
        '[b-a!-%s]' % other, '[%s-%s-%s]' % (down, ch, up), '[\\%s]' % ch, '[%s' % ch, '[', '[]', '[!]', '[!', '[a-z]',
        '[0-9]', '[!a-z]', '[a-c1-3]', '[[]', '[]]', '[?]', '[*]'])
    pat = base[:i] + cls + base[i + 1:]
    if not star:
        return pat
    k = rng.randrange(len(pat) + 1)
    return rng.choice([pat + '*', '*' + pat, pat[:max(k, i + len(cls))] + '*', '*' + pat[i:], cls + '*', '*' + cls,
                       base[:i] + cls + '*', '*' + cls + '*'])


def bracketize(rng, case):
    """put bracket patterns into the selection words and the task_dep of a generated case (in place; the case stays
    valid: a task_dep pattern that would close a cycle is taken out again).  A word / task_dep without `*` is a literal
    for doit whatever else it contains."""
    names = all_names(case)
    words = 'argv' if case['argv'] or case.get('default') is None else 'default'
    lst = list(case[words] or [])
    for _ in range(rng.choice([1, 1, 2])):
        w = bracket_pattern(rng, names, star=rng.random() < 0.8)
        pos = rng.randrange(len(lst) + 1)
        # not behind an option word (it would be taken as its value), not as the first word of a cli run when it is `-…`
        while pos > 0 and lst[pos - 1].startswith('-'):
            pos -= 1
        if w.startswith('-'):
            continue
        lst.insert(pos, w)
    case[words] = lst
    defs = [f for f in flat_defs(case) if not f[1].get('delayed')]
    if defs and rng.random() < 0.6:
        full, d, grp, is_group = rng.choice(defs)
        w = bracket_pattern(rng, names, star=True)
        d['task_dep'] = list(d.get('task_dep') or []) + [w]
        if not valid_case(case):
            d['task_dep'].pop()
    return case


def render(case):
    """one line a human can retype"""
    parts = []
    for full, d, grp, is_group in flat_defs(case):
        attrs = []
        for key in ('task_dep', 'setup', 'calc_dep', 'file_dep', 'targets', 'params'):
            if d.get(key):
                attrs.append('%s=%s' % (key, d[key]))
        for key in ('pos_arg', 'utd', 'delayed'):
            if d.get(key):
                attrs.append(key)
        parts.append('%s%s(%s)' % (full, '[group]' if is_group else '', ', '.join(attrs)))
    cfg = '' if case.get('default') is None else ' DOIT_CONFIG default_tasks=%s' % case['default']
    if case.get('reporter') is not None:
        if case.get('reporter_via') == 'config':
            cfg += ' DOIT_CONFIG reporter=%r' % case['reporter']
    rep = '' if case.get('reporter') is None or case.get('reporter_via') == 'config' else '-r %s ' % case['reporter']
    pre = ''
    if case.get('entry') == 'run_tasks':
        return 'tasks: %s;%s  >>> doit.api.run_tasks(loader, {%s})%s' % (
            '; '.join(parts), cfg, ', '.join('%r: {}' % a for a in case['argv']),
            ' [single=True]' if case.get('single') else '')
    if case.get('layout'):
        dodo_rel, inv, lopts, env_extra, eff = LAYOUTS[case['layout']]
        cfg += '  [dodo file %s, tasks work in %s/]  $ cd %s; %s' % (
            dodo_rel, eff, inv, ' '.join('%s=%s' % kv for kv in sorted(env_extra.items())))
        if case.get('lopts_after'):
            rep = ' '.join(lopts) + ' ' + rep
        else:
            pre = ' '.join(lopts) + ' '
    return 'tasks: %s;%s  $ doit %srun %s%s%s' % ('; '.join(parts), cfg, pre if pre.strip() else '', rep, '--single ' if case.get('single') else '',
                                              ' '.join(repr(a) for a in case['argv']))


# ----------------------------------------------------------------------------------------------
# implementation, third way: a real dodo file found through -f / --dir / --seek-file / DOIT_FILE, `python -m doit` as a
# subprocess started from another directory than the one the tasks work in (wave 4, audit item 6)

LAYOUTS = {
    # name: (dodo file relative to root, invocation dir, loader options, environment, effective dir of the tasks)
    'plain': ('proj/dodo.py', 'proj', [], {}, 'proj'),
    'seek': ('proj/dodo.py', 'proj/sub/deep', ['-k'], {}, 'proj'),
    'seek-long': ('proj/dodo.py', 'proj/sub', ['--seek-file'], {}, 'proj'),
    'seek-env': ('proj/dodo.py', 'proj/sub', [], {'DOIT_SEEK_FILE': '1'}, 'proj'),
    'file': ('proj/build.py', '.', ['-f', 'proj/build.py'], {}, 'proj'),
    'file-abs': ('proj/build.py', 'work', ['--file=@ROOT@/proj/build.py'], {}, 'proj'),
    'file-env': ('proj/build.py', '.', [], {'DOIT_FILE': 'proj/build.py'}, 'proj'),
    'dir': ('proj/build.py', '.', ['-f', 'proj/build.py', '--dir', 'work'], {}, 'work'),
    'dir-short': ('proj/dodo.py', 'proj', ['-d', '../work'], {}, 'work'),
}
IDENT = __import__('re').compile(r'^[A-Za-z_][A-Za-z0-9_]*$')


def dodo_ok(case):
    return (all(IDENT.match(t['name']) for t in case['tasks']) and not any(t.get('delayed') for t in case['tasks'])
            and case.get('reporter') is None)


def dodo_source(case, ev_path):
    """python source of a dodo file defining the tasks of the case, in definition order"""
    def lit(e):
        if isinstance(e, dict):
            return 'pathlib.Path(%r)' % sub(e['path'])
        return repr(sub(e))

    def tdict(full, d, sub_name=None):
        items = []
        if sub_name is not None:
            items.append("'name': %r" % sub_name)
        items.append("'actions': [_mk(%r, %r)]" % (full, [sub(t) for t in mtargets(d)]))
        for key in ('task_dep', 'setup', 'calc_dep'):
            if d.get(key):
                items.append('%r: %r' % (key, list(d[key])))
        for key in ('file_dep', 'targets'):
            if d.get(key):
                seq = ', '.join(lit(e) for e in d[key])
                items.append('%r: %s' % (key, '(%s,)' % seq if d.get('pathform') == 'tuple' else '[%s]' % seq))
        if d.get('params'):
            items.append("'params': [%s]" % ', '.join(
                '{%s}' % ', '.join('%r: %s' % (k, v.__name__ if isinstance(v, type) else repr(v))
                                   for k, v in PARAMS[p].items()) for p in d['params']))
        if d.get('pos_arg'):
            items.append("'pos_arg': 'pos'")
        if d.get('utd'):
            items.append("'uptodate': [True]")
        return '{%s}' % ', '.join(items)
    cfg = ["'dep_file': 'db.json'", "'backend': 'json'", "'verbosity': 0", "'reporter': Rec"]
    if case.get('default') is not None:
        cfg.append("'default_tasks': %r" % [sub(a) for a in case['default']])
    lines = [
        'import json, os, pathlib',
        'from doit.reporter import ZeroReporter',
        'EV = %r' % ev_path,
        'def _ev(x):',
        "    with open(EV, 'a') as f:",
        "        f.write(json.dumps(x) + '\\n')",
        'class Rec(ZeroReporter):',
        "    def get_status(self, task): _ev(['rep', 'get_status', task.name])",
        "    def execute_task(self, task): _ev(['rep', 'execute', task.name])",
        "    def add_failure(self, task, fail_info): _ev(['rep', 'failure', task.name])",
        "    def add_success(self, task): _ev(['rep', 'success', task.name])",
        "    def skip_uptodate(self, task): _ev(['rep', 'up-to-date', task.name])",
        "    def skip_ignore(self, task): _ev(['rep', 'ignored', task.name])",
        "    def runtime_error(self, msg): _ev(['rep', 'runtime_error', msg[:200]])",
        'DOIT_CONFIG = {%s}' % ', '.join(cfg),
        'def _mk(full, targets):',
        '    def action(**kw):',
        "        _ev(['run', full, os.getcwd(), {k: kw[k] for k in sorted(kw)}])",
        '        for tg in targets:',
        "            with open(tg, 'w') as f:",
        '                f.write(full)',
        '        return True',
        '    return action',
    ]
    for t in case['tasks']:
        lines.append('def task_%s():' % t['name'])
        if t.get('subs') is not None:
            if t.get('task_dep'):
                lines.append("    yield {'name': None, 'task_dep': %r}" % list(t['task_dep']))
            for s in t['subs']:
                lines.append('    yield ' + tdict('%s:%s' % (t['name'], s['name']), s, s['name']))
            if not t['subs'] and not t.get('task_dep'):
                lines.append('    return\n    yield')
        else:
            lines.append('    return ' + tdict(t['name'], t))
    return '\n'.join(lines) + '\n'


def impl_dodo(case, workdir):
    """`python -m doit <loader options> run [--single] ARGV` as a subprocess; same observables as impl_cli plus the working
    directory the actions saw"""
    import json as _json
    import subprocess
    dodo_rel, inv, lopts, env_extra, eff = LAYOUTS[case['layout']]
    for name in os.listdir(workdir):
        p = os.path.join(workdir, name)
        if os.path.isdir(p):
            shutil.rmtree(p, ignore_errors=True)
        else:
            os.remove(p)
    root = os.path.realpath(workdir)
    for dname in ('proj/sub/deep', 'work'):
        os.makedirs(os.path.join(root, dname))
    effdir = os.path.join(root, eff)
    _ROOT[0] = effdir
    ev_path = os.path.join(root, 'events.jsonl')
    with open(os.path.join(root, dodo_rel), 'w') as f:
        f.write(dodo_source(case, ev_path))
    with open(os.path.join(effdir, SRC_FILE), 'w') as f:
        f.write('src')
    for full, d, grp, is_group in flat_defs(case):
        for tg in ([] if is_group else mtargets(d) + mfile_dep(d)):
            with open(os.path.join(effdir, sub(tg)), 'w') as f:
                f.write('pre')
    lopts = [o.replace('@ROOT@', root) for o in lopts]
    # loader options are accepted before the command name and among the options of `run`
    if case.get('lopts_after'):
        argv = ['run'] + lopts
    else:
        argv = lopts + ['run']
    argv += (['--single'] if case.get('single') else []) + [sub(a) for a in case['argv']]
    env = dict(os.environ)
    env.update(env_extra)
    env['PYTHONPATH'] = common.REPO
    env['PYTHONDONTWRITEBYTECODE'] = '1'
    for k in ('DOIT_FILE', 'DOIT_SEEK_FILE'):
        if k not in env_extra:
            env.pop(k, None)
    try:
        p = subprocess.run([common.PYTHON, '-m', 'doit'] + argv, cwd=os.path.join(root, inv), env=env,
                           stdout=subprocess.PIPE, stderr=subprocess.PIPE, text=True, timeout=120)
        code, err = p.returncode, p.stderr
    except subprocess.TimeoutExpired:
        code, err = ['exc', 'Timeout'], ''
    events = []
    if os.path.exists(ev_path):
        with open(ev_path) as f:
            events = [_json.loads(l) for l in f if l.strip()]
    processed, started, rec = [], [], []
    for e in events:
        if e[0] != 'rep':
            continue
        rec.append(e[1:])
        if e[1] == 'runtime_error':
            continue
        if e[2] not in processed:
            processed.append(e[2])
        if e[1] != 'get_status' and e[2] not in started:
            started.append(e[2])
    runs = [e for e in events if e[0] == 'run']
    if code == 1 and 'Traceback' in err and not processed:
        # an exception escaped DoitMain.run (the interpreter prints it and exits 1)
        code = ['exc', err.strip().split('\n')[-1].split(':')[0]]
    return {'actions_only': False, 'exit': code, 'error': classify_stderr(err), 'processed': processed, 'started': started,
            'ran': [e[1] for e in runs], 'kwargs': {e[1]: e[3] for e in runs}, 'reporter': rec,
            'runtime_error': [r[1] for r in rec if r[0] == 'runtime_error'],
            'cwds': sorted(set(os.path.relpath(e[2], root) for e in runs)), 'expected_cwd': eff}


def gen_dodo_case(rng):
    """a case for the dodo-file tier: identifier task names, a layout, sometimes a target named relative to the directory
    doit was started from instead of the directory the tasks work in"""
    for _ in range(40):
        case = gen_case(random_sub(rng), delayed_ok=False, entry_ok=False)
        case.pop('reporter', None)
        case.pop('reporter_via', None)
        if dodo_ok(case):
            break
    else:
        case = {'tasks': [gen_taskdef(rng, 'a', [], [], allow_attrs=False)], 'argv': ['a'], 'default': None, 'single': False}
    case['layout'] = rng.choice(sorted(LAYOUTS))
    case['lopts_after'] = rng.random() < 0.3
    inv, eff = LAYOUTS[case['layout']][1], LAYOUTS[case['layout']][4]
    targets = [tg for f in flat_defs(case) if not f[3] for tg in mtargets(f[1]) if not tg.startswith(ABS)]
    if targets and inv != eff and rng.random() < 0.35:
        # the user names the file as seen from where doit was started: not the declared string
        rel = os.path.relpath(os.path.join('/r', eff, rng.choice(targets)), os.path.join('/r', inv))
        case['argv'] = list(case['argv']) + [rel]
    return case


def random_sub(rng):
    import random
    return random.Random(rng.getrandbits(64))
