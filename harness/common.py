"""Shared machinery of the doit verification harness (see DESIGN.md §2, §6).

Everything a property module (harness/props/cXX.py) needs:

  * where things are (VERIF, REPO = $VERIF_REPO or /repo, the Lean project, the driver binary);
  * `use_repo()`      -- make `import doit` resolve to the tree under test;
  * `LeanDriver`      -- the line-protocol client of `doitdrv` (one JSON request per line);
  * `lean_build`, `audit_theorems`, `forbidden_tokens`, `leanchecker`  -- the (T) side;
  * `Ctx`             -- per-run bookkeeping: counters, samples, violations, divergences, known findings;
  * `pmap`            -- fan a list of case batches out over the cores;
  * `scratch_dir`     -- temp dirs outside /repo (under /verif/.scratch), removed on exit.

Nothing here knows about a particular property.
"""
import contextlib
import fcntl
import hashlib
import json
import multiprocessing
import os
import random
import re
import shutil
import subprocess
import sys
import tempfile
import time
import traceback

VERIF = os.path.dirname(os.path.dirname(os.path.abspath(__file__)))
REPO = os.path.abspath(os.environ.get('VERIF_REPO', '/repo'))
LEAN_DIR = os.path.join(VERIF, 'lean')
DRV = os.path.join(LEAN_DIR, '.lake', 'build', 'bin', 'doitdrv')
SCRATCH_ROOT = os.path.join(VERIF, '.scratch')
REPLAYS = os.path.join(VERIF, 'replays')
EVIDENCE = os.path.join(VERIF, 'evidence')
CORPUS = os.path.join(VERIF, 'corpus')
FINDINGS_FILE = os.path.join(VERIF, 'findings', 'known-findings.txt')
PYTHON = '/venv/bin/python'
NCPU = min(16, os.cpu_count() or 1)

ACCEPTED_AXIOMS = {'propext', 'Classical.choice', 'Quot.sound'}


# ----------------------------------------------------------------------------------------------
# the tree under test

def use_repo():
    """make `import doit` come from REPO (the working tree, not an installed copy)"""
    if REPO in sys.path:
        sys.path.remove(REPO)
    sys.path.insert(0, REPO)
    for name in [m for m in sys.modules if m == 'doit' or m.startswith('doit.')]:
        mod = sys.modules[name]
        f = getattr(mod, '__file__', '') or ''
        if not os.path.abspath(f).startswith(REPO + os.sep):
            del sys.modules[name]
    import doit  # noqa
    assert os.path.abspath(doit.__file__).startswith(REPO + os.sep), (doit.__file__, REPO)
    return doit


def anchor_hashes(anchors):
    """AST fingerprint (docstrings stripped) of anchored functions/classes.
    anchors: list of 'doit/control.py::TaskDispatcher._add_task' strings.  Missing anchors hash to 'missing'."""
    import ast
    out = {}
    cache = {}
    for a in anchors:
        path, _, qual = a.partition('::')
        try:
            if path not in cache:
                with open(os.path.join(REPO, path)) as f:
                    cache[path] = ast.parse(f.read())
            node = cache[path]
            for part in [p for p in qual.split('.') if p]:
                found = None
                for ch in ast.iter_child_nodes(node):
                    if isinstance(ch, (ast.FunctionDef, ast.ClassDef, ast.AsyncFunctionDef)) and ch.name == part:
                        found = ch
                        break
                if found is None:
                    raise KeyError(part)
                node = found
            for sub in ast.walk(node):
                body = getattr(sub, 'body', None)
                if (isinstance(body, list) and body and isinstance(body[0], ast.Expr)
                        and isinstance(getattr(body[0], 'value', None), ast.Constant)
                        and isinstance(body[0].value.value, str)):
                    sub.body = body[1:] or [ast.Pass()]
            out[a] = hashlib.sha1(ast.dump(node, include_attributes=False).encode()).hexdigest()[:16]
        except Exception as ex:  # noqa
            out[a] = 'missing:%s' % type(ex).__name__
    return out


# ----------------------------------------------------------------------------------------------
# scratch space

_scratch_made = []


def scratch_dir(prefix='w'):
    os.makedirs(SCRATCH_ROOT, exist_ok=True)
    d = tempfile.mkdtemp(prefix='%s-%d-' % (prefix, os.getpid()), dir=SCRATCH_ROOT)
    _scratch_made.append(d)
    return d


def cleanup_scratch():
    for d in _scratch_made:
        shutil.rmtree(d, ignore_errors=True)
    del _scratch_made[:]


@contextlib.contextmanager
def in_scratch(prefix='w'):
    d = scratch_dir(prefix)
    old = os.getcwd()
    os.chdir(d)
    try:
        yield d
    finally:
        os.chdir(old)
        shutil.rmtree(d, ignore_errors=True)


# ----------------------------------------------------------------------------------------------
# Lean side (T)

@contextlib.contextmanager
def _flock(path):
    with open(path, 'w') as f:
        fcntl.flock(f, fcntl.LOCK_EX)
        try:
            yield
        finally:
            fcntl.flock(f, fcntl.LOCK_UN)


def lean_build(timeout=1500):
    """`lake build` of the library and the driver (no-op when built).  Returns (ok, log)."""
    os.makedirs(os.path.join(LEAN_DIR, '.lake'), exist_ok=True)
    with _flock(os.path.join(LEAN_DIR, '.lake', 'verif-build.lock')):
        p = subprocess.run(['lake', 'build'], cwd=LEAN_DIR, stdout=subprocess.PIPE,
                           stderr=subprocess.STDOUT, text=True, timeout=timeout)
    return p.returncode == 0, p.stdout


def _strip_lean_comments(src):
    out = []
    i, n, depth = 0, len(src), 0
    while i < n:
        if src.startswith('/-', i):
            depth += 1
            i += 2
        elif depth and src.startswith('-/', i):
            depth -= 1
            i += 2
        elif depth:
            if src[i] == '\n':
                out.append('\n')
            i += 1
        elif src.startswith('--', i):
            while i < n and src[i] != '\n':
                i += 1
        elif src[i] == '"':
            j = i + 1
            while j < n and src[j] != '"':
                j += 2 if src[j] == '\\' else 1
            out.append(src[i:j + 1])
            i = j + 1
        else:
            out.append(src[i])
            i += 1
    return ''.join(out)


FORBIDDEN = re.compile(r'\bsorry\b|\badmit\b|^\s*axiom\s|native_decide|bv_decide|implemented_by|\bunsafe\s|maxHeartbeats\s+0\b|@\[extern',
                       re.M)


def module_path(mod):
    return os.path.join(LEAN_DIR, *mod.split('.')) + '.lean'


def module_closure(mods):
    """the given modules plus every DoitModel.* module they import (transitively)"""
    seen, todo = [], list(mods)
    while todo:
        m = todo.pop()
        if m in seen or not m.startswith('DoitModel.'):
            continue
        p = module_path(m)
        if not os.path.exists(p):
            continue
        seen.append(m)
        with open(p) as f:
            for line in f:
                mm = re.match(r'\s*import\s+(\S+)', line)
                if mm:
                    todo.append(mm.group(1))
    return sorted(seen)


def forbidden_tokens(mods):
    """[(module, line, token)] for sorry/admit/axiom/native_decide/... outside comments and strings"""
    hits = []
    for m in mods:
        with open(module_path(m)) as f:
            src = _strip_lean_comments(f.read())
        src = re.sub(r'"(?:[^"\\]|\\.)*"', '""', src)
        for mm in FORBIDDEN.finditer(src):
            hits.append((m, src.count('\n', 0, mm.start()) + 1, mm.group(0).strip()))
    return hits


def theorems_of(mod):
    """fully qualified names of the `theorem`s declared in a Props module (namespace-aware, comments stripped)"""
    with open(module_path(mod)) as f:
        src = _strip_lean_comments(f.read())
    ns, names = [], []
    for line in src.split('\n'):
        mm = re.match(r'\s*namespace\s+(\S+)', line)
        if mm:
            ns.append(mm.group(1))
            continue
        mm = re.match(r'\s*end\s+(\S+)\s*$', line)
        if mm and ns and ns[-1] == mm.group(1):
            ns.pop()
            continue
        mm = re.match(r'\s*(?:@\[[^\]]*\]\s*)*(?:private\s+|protected\s+)?theorem\s+([^\s:({\[]+)', line)
        if mm:
            names.append('.'.join(ns + [mm.group(1)]))
    return names


def audit_theorems(prop_mods, timeout=900):
    """Elaborate a generated file `#print axioms T` for every theorem of the given Props modules.
    Returns dict name -> list of axioms (None when the theorem did not elaborate) and the raw log."""
    names = []
    for m in prop_mods:
        names += theorems_of(m)
    d = scratch_dir('audit')
    path = os.path.join(d, 'Audit.lean')
    with open(path, 'w') as f:
        for m in prop_mods:
            f.write('import %s\n' % m)
        for nme in names:
            f.write('#print axioms %s\n' % nme)
    p = subprocess.run(['lake', 'env', 'lean', path], cwd=LEAN_DIR, stdout=subprocess.PIPE,
                       stderr=subprocess.STDOUT, text=True, timeout=timeout)
    log = p.stdout
    res = {n: None for n in names}
    for mm in re.finditer(r"'([^']+)' depends on axioms: \[([^\]]*)\]", log, re.S):
        res[mm.group(1)] = [a.strip() for a in mm.group(2).replace('\n', ' ').split(',') if a.strip()]
    for mm in re.finditer(r"'([^']+)' does not depend on any axioms", log):
        res[mm.group(1)] = []
    shutil.rmtree(d, ignore_errors=True)
    return res, log


def lean_check_file(text, timeout=900):
    """elaborate a generated Lean file against the built library; returns (ok, log)"""
    d = scratch_dir('gen')
    path = os.path.join(d, 'Gen.lean')
    with open(path, 'w') as f:
        f.write(text)
    p = subprocess.run(['lake', 'env', 'lean', path], cwd=LEAN_DIR, stdout=subprocess.PIPE,
                       stderr=subprocess.STDOUT, text=True, timeout=timeout)
    shutil.rmtree(d, ignore_errors=True)
    return p.returncode == 0 and 'error' not in p.stdout, p.stdout


def leanchecker(mods, timeout=1800):
    p = subprocess.run(['lake', 'env', 'leanchecker'] + list(mods), cwd=LEAN_DIR, stdout=subprocess.PIPE,
                       stderr=subprocess.STDOUT, text=True, timeout=timeout)
    return p.returncode == 0, p.stdout[-2000:]


class LeanDriver(object):
    """client of the doitdrv executable (one JSON object per line each way)"""

    def __init__(self):
        if not os.path.exists(DRV):
            raise RuntimeError('driver not built: %s (run setup_cmd)' % DRV)
        self.p = subprocess.Popen([DRV], stdin=subprocess.PIPE, stdout=subprocess.PIPE, text=True, bufsize=1)

    def ask(self, obj):
        self.p.stdin.write(json.dumps(obj) + '\n')
        self.p.stdin.flush()
        line = self.p.stdout.readline()
        if not line:
            raise RuntimeError('doitdrv died on %s' % json.dumps(obj)[:500])
        return json.loads(line)

    def close(self):
        try:
            self.p.stdin.close()
            self.p.wait(5)
        except Exception:  # noqa
            self.p.kill()

    def __enter__(self):
        return self

    def __exit__(self, *a):
        self.close()


def drv_batch(objs, timeout=600):
    """send all requests at once (fast path for big batches)"""
    if not objs:
        return []
    data = ''.join(json.dumps(o) + '\n' for o in objs)
    p = subprocess.run([DRV], input=data, stdout=subprocess.PIPE, text=True, timeout=timeout)
    lines = [l for l in p.stdout.split('\n') if l]
    if len(lines) != len(objs):
        raise RuntimeError('doitdrv answered %d of %d requests' % (len(lines), len(objs)))
    return [json.loads(l) for l in lines]


# ----------------------------------------------------------------------------------------------
# parallel map

ANCHORCOV_LINES = {}      # file -> set of executed lines reported by forked workers (only with VERIF_ANCHORCOV=1)


def _pmap_worker(args):
    func, item = args
    cov = None
    if os.environ.get('VERIF_ANCHORCOV') == '1' and multiprocessing.current_process().name != 'MainProcess':
        try:       # measurement only (tools/anchor_coverage.py): a worker reports the doit lines it executed
            import coverage
            sys.settrace(None)
            cov = coverage.Coverage(data_file=None, config_file=False, concurrency=['thread'],
                                    include=[os.path.join(REPO, 'doit', '*')])
            cov.start()
        except Exception:  # noqa
            cov = None
    try:
        res = ('ok', func(item))
    except BaseException:  # noqa
        res = ('exc', traceback.format_exc())
    if cov is not None:
        try:
            cov.stop()
            data = cov.get_data()
            res = res + ({f: sorted(data.lines(f) or []) for f in data.measured_files()},)
        except Exception:  # noqa
            pass
    return res


def pmap(func, items, procs=None):
    """map func over items in forked worker processes; exceptions come back as RuntimeError"""
    items = list(items)
    procs = max(1, min(procs or NCPU, len(items)))
    if procs == 1:
        res = [_pmap_worker((func, it)) for it in items]
    else:
        ctx = multiprocessing.get_context('fork')
        with ctx.Pool(procs) as pool:
            res = pool.map(_pmap_worker, [(func, it) for it in items], chunksize=1)
    out = []
    for r in res:
        kind, val = r[0], r[1]
        if len(r) > 2:
            for f, ls in r[2].items():
                ANCHORCOV_LINES.setdefault(f, set()).update(ls)
        if kind == 'exc':
            raise RuntimeError('worker failed:\n' + val)
        out.append(val)
    return out


# ----------------------------------------------------------------------------------------------
# known findings

def load_findings(prop):
    """[(kind, key, text)] for lines of this property: kind in {'open','fixed'}"""
    out = []
    if not os.path.exists(FINDINGS_FILE):
        return out
    with open(FINDINGS_FILE) as f:
        for line in f:
            line = line.strip()
            if not line or line.startswith('#'):
                continue
            mm = re.match(r'(open|fixed):\s+property=(\S+)\s+(.*)', line)
            if not mm or mm.group(2) != prop:
                continue
            rest = mm.group(3)
            km = re.match(r'key=(\S+)\s+(.*)', rest)
            out.append((mm.group(1), km.group(1) if km else None, km.group(2) if km else rest))
    return out


# ----------------------------------------------------------------------------------------------
# per-run context

def canon(obj):
    return json.dumps(obj, sort_keys=True, default=str)


class Ctx(object):
    """bookkeeping of one check run; also the interface a property module reports through"""

    def __init__(self, prop, tier, seed):
        self.prop = prop
        self.tier = tier
        self.seed = seed
        self.rng = random.Random(seed * 1000003 + int(prop[1:]))
        self.t0 = time.time()
        self.budget_s = None          # set by main from the module's META
        self.boost = 1                # >1 when anchored sources changed or (T)/(K) broke: intensify
        self.evaluations = 0
        self._nontrivial = set()
        self.dist = {}                # histogram of the input distribution / branches hit
        self.samples = []
        self.violations = []          # dicts: witness, failed, note
        self.divergences = []         # dicts: witness, note   (K mismatch, no property failure shown)
        self.known_hits = {}          # key -> (text, count, first witness)
        self.notes = []
        self.extra = {}               # free-form extras for the evidence (e.g. hypotheses satisfied counts)
        self.traces_validated = 0
        self.open_findings = [(k, t) for kind, k, t in load_findings(prop) if kind == 'open']
        self.signatures = {}          # key -> predicate(witness) (filled by main from harness/findings.py)

    # -- budget
    def elapsed(self):
        return time.time() - self.t0

    def time_left(self):
        return (self.budget_s or 0) * self.boost - self.elapsed()

    def sub_rng(self, *parts):
        return random.Random(canon([self.seed, self.prop] + list(parts)))

    # -- counting
    def count(self, key, n=1):
        self.dist[key] = self.dist.get(key, 0) + n

    def case(self, case, nontrivial=True, sample=True):
        """register one explored case (input / op sequence / history / schedule)"""
        self.evaluations += 1
        if nontrivial:
            self._nontrivial.add(hashlib.sha1(canon(case).encode()).digest()[:8])
        if sample and len(self.samples) < 5:
            self.samples.append(case)

    def merge_counts(self, evaluations=0, nontrivial_hashes=(), dist=None, samples=(), traces=0):
        """fold in what a worker process counted"""
        self.evaluations += evaluations
        self._nontrivial.update(nontrivial_hashes)
        for k, v in (dist or {}).items():
            self.count(k, v)
        for s in samples:
            if len(self.samples) < 5:
                self.samples.append(s)
        self.traces_validated += traces

    @property
    def distinct_nontrivial(self):
        return len(self._nontrivial)

    # -- reporting
    def violation(self, witness, failed, note=''):
        """the property monitor (P) is false on an implementation trace (or the impl broke the property outright)"""
        for key, text in self.open_findings:
            pred = self.signatures.get(key)
            if pred is not None:
                try:
                    hit = bool(pred(witness))
                except Exception:  # noqa
                    hit = False
                if hit:
                    old = self.known_hits.get(key)
                    self.known_hits[key] = (text, (old[1] if old else 0) + 1, old[2] if old else witness)
                    return 'known'
        self.violations.append({'witness': witness, 'failed': failed, 'note': note})
        return 'violation'

    def divergence(self, witness, note=''):
        """model and implementation disagree on an observable (K), property not (yet) shown false"""
        self.divergences.append({'witness': witness, 'note': note})

    def note(self, text):
        self.notes.append(text)


class WorkerStats(object):
    """what a forked worker returns to be merged into the Ctx (picklable)"""

    def __init__(self):
        self.evaluations = 0
        self.hashes = set()
        self.dist = {}
        self.samples = []
        self.violations = []    # (witness, failed, note)
        self.divergences = []   # (witness, note)
        self.traces = 0

    def count(self, key, n=1):
        self.dist[key] = self.dist.get(key, 0) + n

    def case(self, case, nontrivial=True):
        self.evaluations += 1
        if nontrivial:
            self.hashes.add(hashlib.sha1(canon(case).encode()).digest()[:8])
        if len(self.samples) < 2:
            self.samples.append(case)

    def violation(self, witness, failed, note=''):
        if len(self.violations) < 50:
            self.violations.append((witness, failed, note))

    def divergence(self, witness, note=''):
        if len(self.divergences) < 50:
            self.divergences.append((witness, note))

    def merge_into(self, ctx):
        ctx.merge_counts(self.evaluations, self.hashes, self.dist, self.samples, self.traces)
        for w, f, n in self.violations:
            ctx.violation(w, f, n)
        for w, n in self.divergences:
            ctx.divergence(w, n)


def load_corpus(prop):
    """corpus/<prop>/*.json in name order: minimised past failures and hand-written seeds (run first)"""
    d = os.path.join(CORPUS, prop)
    out = []
    if os.path.isdir(d):
        for name in sorted(os.listdir(d)):
            if name.endswith('.json'):
                with open(os.path.join(d, name)) as f:
                    out.append((name, json.load(f)))
    return out
