"""Entry point behind /verif/check:   check <quick|thorough> <Cxx>   |   check replay <Cxx> <file>

Runs, for one property, the three artefacts of DESIGN.md §1 and applies its decision table:
  (T) lake build + forbidden-token scan + `#print axioms` audit of every theorem in Props/Cxx.lean
      (+ obligations generated from the working tree, where the property has any);
  (K) correspondence model <-> implementation and (P) the property monitor on implementation traces
      -- both inside the property module harness/props/cXX.py, reporting through common.Ctx.
Exit 0: held on everything explored.  Exit 1 + "VIOLATION property=<id> replay=<path>[ no-failing-input-found]".
"""
import importlib
import json
import os
import sys
import time
import traceback

sys.path.insert(0, os.path.dirname(os.path.abspath(__file__)))
import common  # noqa: E402
from common import Ctx  # noqa: E402


def load_module(prop):
    return importlib.import_module('props.%s' % prop.lower())


def write_replay(ctx, n, payload):
    os.makedirs(common.REPLAYS, exist_ok=True)
    path = os.path.join(common.REPLAYS, '%s-%s-%d-%d.json' % (ctx.prop, ctx.tier, ctx.seed, n))
    payload = dict(payload)
    payload.update({'property': ctx.prop, 'seed': ctx.seed, 'tier': ctx.tier,
                    'repo': common.REPO,
                    'replay_cmd': './check replay %s %s' % (ctx.prop, path)})
    with open(path, 'w') as f:
        json.dump(payload, f, indent=1, sort_keys=True, default=str)
    return path


def check_lean(ctx, meta, mod):
    """the (T) side.  Returns dict with obligations, discharged, broken (list of strings), details"""
    res = {'obligations': 0, 'discharged': 0, 'broken': [], 'theorems': {}, 'partial_theorems': [],
           'forbidden_hits': [], 'generated': None}
    t = time.time()
    ok, log = common.lean_build()
    res['build_s'] = round(time.time() - t, 2)
    if not ok:
        errs = [l for l in log.split('\n') if 'error' in l][:5]
        res['broken'].append('lake build failed: ' + ' | '.join(errs))
        # without a built library nothing below can be elaborated
        names = []
        for m in meta['lean_props']:
            try:
                names += common.theorems_of(m)
            except Exception:  # noqa
                pass
        res['obligations'] = max(1, len(names))
        return res
    mods = common.module_closure(meta['lean_props'])
    res['modules'] = mods
    hits = common.forbidden_tokens(mods)
    res['forbidden_hits'] = ['%s:%d:%s' % h for h in hits]
    axioms, alog = common.audit_theorems(meta['lean_props'])
    res['obligations'] = len(axioms)
    for name, ax in sorted(axioms.items()):
        if ax is None:
            res['broken'].append('theorem %s did not elaborate' % name)
            res['theorems'][name] = 'FAILED'
        elif not set(ax) <= common.ACCEPTED_AXIOMS:
            res['broken'].append('theorem %s depends on %s' % (name, sorted(set(ax) - common.ACCEPTED_AXIOMS)))
            res['theorems'][name] = ax
        else:
            res['theorems'][name] = ax
            res['discharged'] += 1
        if name.endswith('_partial'):
            res['partial_theorems'].append(name)
    if hits:
        res['broken'].append('forbidden tokens: %s' % res['forbidden_hits'][:5])
        res['discharged'] = 0
    if not axioms:
        res['broken'].append('no theorem found in %s' % meta['lean_props'])
    gen = getattr(mod, 'generated_obligations', None)
    if gen is not None:
        text, n_obl = gen(ctx)
        okg, glog = common.lean_check_file(text)
        res['obligations'] += n_obl
        res['generated'] = {'obligations': n_obl, 'ok': okg}
        if okg:
            res['discharged'] += n_obl
        else:
            res['generated']['log'] = glog[-1500:]
            res['broken'].append('generated obligation (tables regenerated from the working tree) no longer checks: '
                                 + ' | '.join([l for l in glog.split('\n') if 'error' in l][:3]))
    return res


def check_anchors(ctx, meta):
    anchors = meta.get('anchors', [])
    if not anchors:
        return []
    now = common.anchor_hashes(anchors)
    lock_path = os.path.join(common.VERIF, 'harness', 'anchors.lock.json')
    lock = {}
    if os.path.exists(lock_path):
        with open(lock_path) as f:
            lock = json.load(f)
    return sorted(a for a in anchors if a in lock and lock[a] != now[a])


def _anchor_cov_start():
    """opt-in (VERIF_ANCHORCOV=1, tools/anchor_coverage.py): measure which statements of the anchored doit functions the
    correspondence run really executes in this process (threads included; child processes are not measured).  The result
    goes into the evidence (`anchor_line_coverage`); it never decides anything."""
    if os.environ.get('VERIF_ANCHORCOV') != '1':
        return None
    try:
        import coverage
        cov = coverage.Coverage(data_file=None, config_file=False, concurrency=['thread'],
                                include=[os.path.join(common.REPO, 'doit', '*')])
        cov.start()
        return cov
    except Exception:  # noqa
        return None


def _anchor_cov_report(cov, anchors):
    import ast
    cov.stop()
    out = {}
    trees = {}
    for a in anchors:
        path, _, qual = a.partition('::')
        full = os.path.join(common.REPO, path)
        try:
            if path not in trees:
                with open(full) as f:
                    trees[path] = (ast.parse(f.read()), cov.analysis2(full))
            node, (_, stmts, _excl, missing, _) = trees[path]
            for part in [p for p in qual.split('.') if p]:
                node = next(ch for ch in ast.iter_child_nodes(node)
                            if isinstance(ch, (ast.FunctionDef, ast.ClassDef, ast.AsyncFunctionDef)) and ch.name == part)
            lo, hi = node.lineno, node.end_lineno
            seen = common.ANCHORCOV_LINES.get(full, set()) | common.ANCHORCOV_LINES.get(os.path.realpath(full), set())
            st = [l for l in stmts if lo < l <= hi]          # the `def` line itself runs at import time
            mi = [l for l in missing if lo < l <= hi and l not in seen]
            out[a] = {'statements': len(st), 'executed': len(st) - len(mi), 'missing_lines': mi}
        except Exception as ex:  # noqa
            out[a] = {'error': type(ex).__name__}
    return out


def _normal_signals():
    """A check started as a background job of a non-interactive shell inherits SIGINT/SIGQUIT = SIG_IGN, and an ignored
    signal stays ignored across exec: a cmd-action `kill -INT $$` would then do nothing and the C17/C05/C19 cases about
    commands killed by a signal would misjudge the code.  Give the harness (and so every process it starts) the default
    dispositions."""
    import signal
    for name in ('SIGINT', 'SIGQUIT', 'SIGTERM', 'SIGHUP', 'SIGPIPE'):
        sig = getattr(signal, name, None)
        try:
            if sig is not None and signal.getsignal(sig) == signal.SIG_IGN and name != 'SIGPIPE':
                signal.signal(sig, signal.default_int_handler if name == 'SIGINT' else signal.SIG_DFL)
        except (ValueError, OSError):
            pass


def main(argv):
    _normal_signals()
    if len(argv) < 3:
        print(__doc__)
        return 2
    mode, prop = argv[1], argv[2].upper()
    seed = int(os.environ.get('VERIF_SEED', '0') or 0)
    tier = mode if mode in ('quick', 'thorough') else os.environ.get('VERIF_TIER', 'quick')
    ctx = Ctx(prop, tier, seed)
    mod = load_module(prop)
    meta = mod.META
    ctx.budget_s = meta.get('budget', {}).get(tier, 30 if tier == 'quick' else 300)
    try:
        import findings as findings_mod
        ctx.signatures = dict(getattr(findings_mod, 'SIGNATURES', {}))
    except ImportError:
        pass
    ctx.signatures.update(getattr(mod, 'SIGNATURES', {}))
    common.use_repo()

    if mode == 'replay':
        with open(argv[3]) as f:
            data = json.load(f)
        rep = getattr(mod, 'replay', None)
        if rep is None:
            print('property module has no replay(); witness:\n' + json.dumps(data.get('witness'), indent=1)[:4000])
            return 2
        ok = rep(ctx, data)
        print('replay: property %s on this tree' % ('HOLDS' if ok else 'FAILS'))
        return 0 if ok else 1

    harness_error = None
    lean = {'obligations': 1, 'discharged': 0, 'broken': ['not run'], 'theorems': {}, 'partial_theorems': []}
    changed = []
    try:
        lean = check_lean(ctx, meta, mod)
        changed = check_anchors(ctx, meta)
        if changed:
            ctx.boost = max(ctx.boost, 3)
            ctx.note('anchored sources changed since anchors.lock.json: %s -- correspondence budget x3' % changed)
        if lean['broken']:
            ctx.boost = max(ctx.boost, 3)
        cov = _anchor_cov_start()
        try:
            mod.run(ctx)
        finally:
            if cov is not None:
                ctx.extra['anchor_line_coverage'] = _anchor_cov_report(cov, meta.get('anchors', []))
        if (ctx.divergences or lean['broken']) and not ctx.violations:
            # (K) or (T) broke: look harder for a concrete failing input before saying there is none
            ctx.boost = max(ctx.boost, 3) * 2
            ctx.count('intensified_search', 1)
            search = getattr(mod, 'search', None)
            if search is not None:
                search(ctx)
            else:
                ctx.seed_shift = 7919
                ctx.rng.seed(ctx.seed * 1000003 + 7919)
                mod.run(ctx)
    except Exception:  # noqa
        harness_error = traceback.format_exc()
    finally:
        common.cleanup_scratch()

    # ---- decide (DESIGN §1)
    out_lines = []
    exit_code = 0
    n = 0
    for key, (text, cnt, wit) in sorted(ctx.known_hits.items()):
        out_lines.append('KNOWN-FINDING: property=%s key=%s %s (seen %d times this run)' % (prop, key, text, cnt))
    if ctx.violations:
        exit_code = 1
        seen = set()
        for v in ctx.violations:
            k = common.canon(v['witness'])
            if k in seen or n >= 5:
                continue
            seen.add(k)
            path = write_replay(ctx, n, {'failed': v['failed'], 'witness': v['witness'], 'note': v['note']})
            out_lines.append('VIOLATION property=%s replay=%s' % (prop, path))
            n += 1
    else:
        reasons = []
        if ctx.divergences:
            reasons.append(('correspondence', ctx.divergences[0]))
        for b in lean['broken']:
            reasons.append(('theorem', {'witness': None, 'note': b}))
        if harness_error:
            reasons.append(('harness', {'witness': None, 'note': harness_error}))
        if reasons:
            exit_code = 1
            kind, first = reasons[0]
            path = write_replay(ctx, 0, {
                'failed': kind,
                'no_longer_checks': [{'kind': k, 'note': r.get('note'), 'witness': r.get('witness')}
                                     for k, r in reasons[:10]],
                'witness': first.get('witness'), 'note': first.get('note'),
                'search': 'intensified search (x%d budget) found no input on which the property monitor fails'
                          % ctx.boost})
            out_lines.append('VIOLATION property=%s replay=%s no-failing-input-found' % (prop, path))

    # ---- evidence
    wall = round(ctx.elapsed(), 2)
    coverage = {
        'obligations': max(1, lean['obligations']),
        'discharged': lean['discharged'],
        'checker_cmd': 'cd lean && lake build && lake env lean <generated #print axioms file for %s>%s'
                       % (','.join(meta['lean_props']),
                          ' && lake env leanchecker ' + ' '.join(meta['lean_props']) if tier == 'thorough' else ''),
        'trusted_base': ['Lean 4.33.0 kernel', 'axioms accepted: propext, Classical.choice, Quot.sound',
                         'correspondence harness (Python) and doitdrv JSON driver',
                         ] + list(meta.get('trusted', [])),
        'theorems': lean.get('theorems', {}),
        'partial_theorems': lean.get('partial_theorems', []),
        'theorem_side_broken': lean['broken'],
        'generated_obligations': lean.get('generated'),
        'evaluations': ctx.evaluations,
        'distinct_nontrivial': ctx.distinct_nontrivial,
        'rule': meta.get('rule', ''),
        'samples': ctx.samples[:5] or ['(no case explored)'],
        'traces_validated_against_impl': ctx.traces_validated,
        'distribution': dict(sorted(ctx.dist.items())),
        'changed_anchors': changed,
        'correspondence_divergences': len(ctx.divergences),
        'known_findings_seen': {k: v[1] for k, v in ctx.known_hits.items()},
        'notes': ctx.notes,
        'explanation': meta.get('level_text', ''),
    }
    coverage.update(ctx.extra)
    if tier == 'thorough' and not lean['broken'] and meta.get('leanchecker', True):
        okc, clog = common.leanchecker(meta['lean_props'])
        coverage['leanchecker'] = 'ok' if okc else clog
        if not okc:
            exit_code = 1
            path = write_replay(ctx, 99, {'failed': 'theorem', 'note': 'leanchecker rejected: ' + clog})
            out_lines.append('VIOLATION property=%s replay=%s no-failing-input-found' % (prop, path))
    evidence = {
        'property_id': prop, 'tier': tier, 'seed': seed, 'level': meta.get('level', 'proof'),
        'coverage': coverage,
        'assumptions': list(meta.get('assumptions', [])),
        'wall_s': round(ctx.elapsed(), 2),
        'violations': len(ctx.violations) + (1 if exit_code and not ctx.violations else 0),
    }
    # evidence/ only ever describes runs against /repo itself; runs against a patched scratch tree ($VERIF_REPO, used for
    # calibration with seeded changes) write theirs under .scratch/ so that committed evidence is never overwritten
    evdir = common.EVIDENCE if common.REPO == '/repo' else os.path.join(common.SCRATCH_ROOT, 'evidence-other-tree')
    os.makedirs(evdir, exist_ok=True)
    with open(os.path.join(evdir, '%s.json' % prop), 'w') as f:
        json.dump(evidence, f, indent=1, sort_keys=True, default=str)

    for l in out_lines:
        print(l)
    print('%s %s seed=%d: theorems %d/%d, cases %d (%d distinct non-trivial), divergences %d, violations %d, '
          'known %d, %.1fs -> exit %d'
          % (prop, tier, seed, lean['discharged'], lean['obligations'], ctx.evaluations, ctx.distinct_nontrivial,
             len(ctx.divergences), len(ctx.violations), len(ctx.known_hits), wall, exit_code))
    if harness_error:
        print(harness_error, file=sys.stderr)
    return exit_code


if __name__ == '__main__':
    sys.exit(main(sys.argv))
